// Package oracle holds the offline, deterministic checkers that run over a
// recorded event log (events.jsonl) of engines A and B. Every rule speaks
// about observable facts: events emitted at hook points on the goroutine
// that owns the state, API results recorded at the client boundary, and
// files. "Earlier" / "later" always mean lower / higher sequence number.
package oracle

import (
	"fmt"
	"sort"
	"strings"

	"verif/ev"
)

// Finding is one violation of one property.
type Finding struct {
	Prop string `json:"prop"`
	Rule string `json:"rule"`
	Sig  string `json:"sig"` // rule + discriminating context, for known-findings matching
	Msg  string `json:"msg"`
	Seq  int64  `json:"seq"`
}

// Report is the outcome of analysing one run.
type Report struct {
	Findings      []Finding
	Stats         map[string]int64
	Inconclusive  []string
	Samples       map[string][]string // a few written-out cases per topic
	Shape         []string            // abstract sequence of notable events (run signature)
	CaseCount     int                 // engines whose runs hold many cases: number of cases
	Cases         []string            // hashes of the non-trivial cases
	DistinctCases int                 // or their number, when the worker counted them itself
}

type nodeKey struct{ cid, nid uint64 }

func (k nodeKey) String() string { return fmt.Sprintf("%d/%d", k.cid, k.nid) }

type entryInfo struct {
	term uint64
	typ  uint8
	hash uint64
}

type committedInfo struct {
	entryInfo
	seq      int64  // when first observed committed
	obsTerm  uint64 // lowest term of an observer at a commit observation
	cfg      *ev.Cfg
	byLeader bool
}

// nodeState is what the oracles know about one node (across incarnations).
type nodeState struct {
	key nodeKey
	inc int

	// shadow log of the current incarnation
	prev, last uint64
	log        map[uint64]entryInfo
	cfgs       map[uint64]*ev.Cfg // config entries in the shadow log

	st         ev.St
	hasSt      bool
	commit     uint64
	latest     *ev.Cfg           // latest configuration according to the node
	unreach    map[uint64]bool   // leader: followers it has reported unreachable
	roundDone  map[uint64]uint64 // leader: node -> ordinal of the last round reported complete
	removedFor map[uint64]int    // index of the configuration that removed it -> incarnation that shut down for it
	// C17: the leader this node hears from, and what that leader has sent to
	// the other nodes since it last contacted this one (while no fault is active)
	followL, followT uint64
	followCfg        uint64
	followTick       int64 // logical time (ticks of a quarter heartbeat timeout) of that contact
	othersServed     map[uint64]int
	frontier         uint64 // durable frontier of the log
	needLast         uint64 // highest index the node acknowledged as stored (C10)
	serving          bool

	maxTerm       uint64 // highest term ever reported (any incarnation)
	maxTermSeq    int64
	ackVoteTerm   uint64 // last grant acknowledged: term / candidate
	ackVoteFor    uint64
	lastPersisted [2]uint64

	// crash bookkeeping
	crashed      bool
	crashLog     map[uint64]entryInfo
	crashPrev    uint64
	crashLast    uint64
	crashNeed    uint64
	crashPoint   string
	gracefulExit bool

	// C11
	pendingDemote int64           // seq of cfg-committed without own vote while leader; 0 = none
	rounds        map[uint64]bool // ids with a reported completed round (this leadership)
	leaderSince   int64

	// C19 info monotonicity (per incarnation)
	lastInfo *ev.Info

	// applied tracking (FSM goroutine)
	appliedIdx   uint64
	fsmLen       int64
	fsmRoll      uint64
	lastFsmVal   string
	lastFsmPos   int64
	hasFsmVal    bool
	snapLabels   map[uint64]*ev.Rec // snapshot index -> snapmeta record
	termBefore   uint64
	snapTouched  bool   // restore / install / compaction happened in this incarnation
	truncPending uint64 // a truncation from this index has started and not finished
	xferPermit   bool   // told to time out now, candidate ever since
	resetWall    int64  // wall ms of the last request handled that re-arms the election timer (0 = none in this incarnation)
	leaderKnown  uint64
}

type voteKey struct {
	cid, voter, term uint64
}

type leaderKey struct {
	cid, term uint64
}

// Analyzer consumes records in order.
type Analyzer struct {
	rep   *Report
	nodes map[nodeKey]*nodeState

	leaderOf map[leaderKey]uint64
	leaderAt map[leaderKey]int64
	votes    map[voteKey]uint64
	grants   map[leaderKey]map[uint64]map[uint64]bool // (cid,term) -> candidate -> voters that produced a grant
	elCfg    map[leaderKey]map[uint64]*ev.Cfg         // (cid,term) -> candidate -> its config at election start

	ledger       map[uint64]map[[2]uint64]ledgerEntry // cid -> (index,term) -> entry
	committed    map[uint64]map[uint64]*committedInfo // cid -> index -> info
	maxLdrCommit map[uint64]uint64

	// FSM global sequence per cluster
	g      map[uint64][]string // cid -> ids by position (1-based; [0] unused)
	gRoll  map[uint64][]uint64 // rolling hash after position p
	gPos   map[uint64]map[string]int64
	gIndex map[uint64]map[int64]uint64 // cid -> position -> log index

	// client history
	ops         map[int64]*clientOp
	opOrder     []int64
	xfers       map[int64]*xferOp
	cfgReqs     map[int64]*cfgReq // pending ChangeConfig requests by op id
	cfgReqSeen  bool
	connID      map[int64]*connInfo
	servingDirs map[string]nodeKey

	wireIDs       map[uint64]bool    // node ids used by wire-level harness peers
	elXfer        map[[3]uint64]bool // (cid, candidate, term) -> the election had transfer permission
	flooded       bool               // see ev.MaxRecords
	hbMs          int64              // heartbeat timeout of the run (from the params record)
	alias         map[uint64]uint64  // virtual node id -> peer id it speaks as (engine B)
	nutGone       bool
	wireQ         []*ev.Rec // requests announced by the wire-level peer, not yet handled by the node
	cfgPayload    map[[3]uint64]*ev.Cfg
	ticks         int64
	faultsStopped bool
	healthy       bool // no fault is active: every link works, every member runs
	ended         bool
	Universe      bool // engine B: virtual leaders are entered by the harness
}

type ledgerEntry struct {
	entryInfo
	prevTerm uint64
	hasPrev  bool
	seq      int64
	who      string
}

type clientOp struct {
	rec     *ev.Rec
	callSeq int64
	retSeq  int64
	ret     *ev.Rec
	node    nodeKey
	inc     int
	// last log index and term of the node if it was leader when the
	// operation was submitted
	leaderLast, leaderTerm uint64
}

type xferOp struct {
	callSeq int64
	node    nodeKey
	inc     int
	term    uint64
}

type connInfo struct {
	node   nodeKey
	inc    int
	ok     bool // successful identity handshake naming this node
	named  [2]uint64
	dialBy string
}

// New creates an analyzer.
func New() *Analyzer {
	return &Analyzer{
		rep:      &Report{Stats: map[string]int64{}, Samples: map[string][]string{}},
		nodes:    map[nodeKey]*nodeState{},
		leaderOf: map[leaderKey]uint64{}, leaderAt: map[leaderKey]int64{},
		votes:  map[voteKey]uint64{},
		grants: map[leaderKey]map[uint64]map[uint64]bool{},
		elCfg:  map[leaderKey]map[uint64]*ev.Cfg{},
		ledger: map[uint64]map[[2]uint64]ledgerEntry{}, committed: map[uint64]map[uint64]*committedInfo{},
		maxLdrCommit: map[uint64]uint64{},
		g:            map[uint64][]string{}, gRoll: map[uint64][]uint64{}, gPos: map[uint64]map[string]int64{}, gIndex: map[uint64]map[int64]uint64{},
		ops: map[int64]*clientOp{}, xfers: map[int64]*xferOp{}, cfgReqs: map[int64]*cfgReq{}, connID: map[int64]*connInfo{},
		servingDirs: map[string]nodeKey{},
		wireIDs:     map[uint64]bool{},
		elXfer:      map[[3]uint64]bool{},
		alias:       map[uint64]uint64{},
	}
}

func (a *Analyzer) find(prop, rule, sig string, seq int64, format string, args ...interface{}) {
	if sig == "" {
		sig = rule
	}
	// one finding per (prop, sig) per run is enough
	for _, f := range a.rep.Findings {
		if f.Prop == prop && f.Sig == sig {
			a.rep.Stats["dup-findings"]++
			return
		}
	}
	a.rep.Findings = append(a.rep.Findings, Finding{Prop: prop, Rule: rule, Sig: sig, Msg: fmt.Sprintf(format, args...), Seq: seq})
}

func (a *Analyzer) stat(k string) { a.rep.Stats[k]++ }

func (a *Analyzer) sample(topic, s string) {
	if len(a.rep.Samples[topic]) < 3 {
		a.rep.Samples[topic] = append(a.rep.Samples[topic], s)
	}
}

func (a *Analyzer) shape(s string) {
	if len(a.rep.Shape) < 400 {
		a.rep.Shape = append(a.rep.Shape, s)
	}
}

func (a *Analyzer) node(r *ev.Rec) *nodeState {
	if r.Nid == 0 {
		return nil
	}
	k := nodeKey{r.Cid, r.Nid}
	n := a.nodes[k]
	if n == nil {
		n = &nodeState{key: k, log: map[uint64]entryInfo{}, cfgs: map[uint64]*ev.Cfg{}, snapLabels: map[uint64]*ev.Rec{}, rounds: map[uint64]bool{}}
		a.nodes[k] = n
	}
	return n
}

func majority(n int) int { return n/2 + 1 }

func cfgString(c *ev.Cfg) string {
	if c == nil {
		return "<nil>"
	}
	var parts []string
	for _, n := range c.Nodes {
		s := fmt.Sprint(n.ID)
		if n.Voter {
			s += "v"
		}
		if n.Action != 0 {
			s += fmt.Sprintf("a%d", n.Action)
		}
		parts = append(parts, s)
	}
	return fmt.Sprintf("cfg@%d/%d{%s}", c.Index, c.Term, strings.Join(parts, ","))
}

func voterSet(c *ev.Cfg) map[uint64]bool {
	m := map[uint64]bool{}
	if c != nil {
		for _, n := range c.Nodes {
			if n.Voter {
				m[n.ID] = true
			}
		}
	}
	return m
}

type cfgReq struct {
	node nodeKey
	inc  int
	cfg  *ev.Cfg
}

func changedVoters(a, b map[uint64]bool) []uint64 {
	var ids []uint64
	for k := range a {
		if !b[k] {
			ids = append(ids, k)
		}
	}
	for k := range b {
		if !a[k] {
			ids = append(ids, k)
		}
	}
	sort.Slice(ids, func(i, j int) bool { return ids[i] < ids[j] })
	return ids
}

func actionIn(c *ev.Cfg, id uint64, want []uint8) bool {
	if c == nil {
		return false
	}
	for _, nd := range c.Nodes {
		if nd.ID == id {
			for _, w := range want {
				if nd.Action == w {
					return true
				}
			}
		}
	}
	return false
}

func symDiff(a, b map[uint64]bool) int {
	d := 0
	for k := range a {
		if !b[k] {
			d++
		}
	}
	for k := range b {
		if !a[k] {
			d++
		}
	}
	return d
}

// Analyze runs all oracles over recs.
func Analyze(recs []*ev.Rec) *Report {
	a := New()
	for _, r := range recs {
		a.Feed(r)
	}
	return a.Finish()
}

// Feed consumes one record.
func (a *Analyzer) Feed(r *ev.Rec) {
	a.rep.Stats["events"]++
	a.rep.Stats["ev:"+r.K]++
	if r.K == "event-flood" {
		// the recorder stopped writing everything but the convergence
		// verdict: the rules that need the complete log are off from here
		a.flooded = true
		a.stat("event-floods")
		return
	}
	if a.flooded && !ev.AfterFlood(r.K) {
		return
	}
	n := a.node(r)
	if n != nil && r.Inc != 0 && r.K != "open" && r.Inc != n.inc {
		// late record of an older incarnation (e.g. its FSM goroutine draining
		// after a graceful stop raced with the next start): only legal for
		// records that carry no authority
		a.stat("stale-incarnation-records")
		return
	}
	switch r.K {
	case "open":
		a.onOpen(n, r)
	case "crash":
		a.onCrash(n, r)
	case "step":
		a.onState(n, r, true)
	case "state":
		a.onStateChange(n, r)
	case "leader":
		a.onState(n, r, false)
	case "election":
		a.onElection(n, r)
	case "election-aborted":
		a.onState(n, r, false)
	case "append":
		a.onAppend(n, r)
	case "trunc-begin":
		if n != nil {
			n.truncPending = r.Idx
		}
	case "trunc":
		if n != nil {
			n.truncPending = 0
		}
		a.onTrunc(n, r)
	case "clear":
		if n != nil {
			n.truncPending = 0
		}
		a.onClear(n, r)
	case "compact":
		a.onCompact(n, r)
		// C15 / C09: segments are unmapped now; a replication that was told to
		// stop (its follower left the configuration) but has not returned yet
		// still holds a view of them and reads it at its next heartbeat
		if n != nil && r.St != nil && r.St.State == "L" && r.A > r.B {
			a.find("C15", "log-compacted-under-a-stopped-replication", "", r.Q, "leader %s compacts its log up to %d while %d replication goroutines are running but only %d replications are known to it: one that was stopped has not returned yet and still reads the old log", n.key, r.Idx, r.A, r.B)
			a.find("C09", "log-compacted-under-a-stopped-replication", "", r.Q, "leader %s compacts its log up to %d while %d replication goroutines are running but only %d replications are known to it", n.key, r.Idx, r.A, r.B)
		}
		a.stat("compactions-checked-for-stopped-replications")
	case "commit":
		a.onCommit(n, r)
	case "durable":
		a.onDurable(n, r)
	case "persist":
		a.onPersist(n, r)
	case "rpc":
		a.onRPC(n, r)
	case "cfg-changed", "cfg-reverted":
		a.onState(n, r, false)
		if r.K == "cfg-changed" && n.latest != nil && n.latest.Nodes != nil && r.Cfg != nil && r.St != nil &&
			r.Cfg.Index > n.latest.Index && r.Cfg.Index > r.St.Snap && n.latest.Index > 0 {
			// C08: the configurations one node operates under, one after the
			// other (a revert or a snapshot installation starts a new sequence)
			if d := symDiff(voterSet(n.latest), voterSet(r.Cfg)); d > 1 {
				a.find("C08", "node-adopts-config-more-than-one-voter-away", "", r.Q, "%s moves from configuration %s to %s: %d voters differ", n.key, cfgString(n.latest), cfgString(r.Cfg), d)
			}
			a.stat("config-adoptions-compared")
		}
		n.latest = r.Cfg
		a.stat("config-changes")
	case "cfg-committed":
		a.onCfgCommitted(n, r)
	case "cfg-action":
		a.onCfgAction(n, r)
	case "round":
		a.onRound(n, r)
	case "xfer-target":
		a.onXferTarget(n, r)
	case "log-change":
		// C15: the raft goroutine removes entries from its log (truncation of a
		// conflicting tail, compaction or replacement by an installed snapshot)
		// inside a request handler; replications of its own leadership that
		// were not stopped yet read that log from their goroutines
		a.stat("log-removals-in-request-handlers")
		if n != nil && r.Reason == "discard" && r.St != nil {
			// the whole log is about to be replaced by the installed snapshot
			// (its entry at the snapshot index has another term: what follows
			// belongs to another history). A kill from here on may or may not
			// have removed the entries beyond the snapshot - like a truncation
			// that has begun (C10 acknowledged-entry-lost).
			n.truncPending = r.St.Snap + 1
		}
		if r.NEnt > 0 {
			a.find("C15", "log-removed-under-running-replications", "log-removed-under-running-replications:"+r.Reason, r.Q, "%s steps down and removes entries from its log (%s) in one request handler while %d replications of its leadership are still running and reading that log", n.key, r.Reason, r.NEnt)
		}
	case "unreachable":
		// the leader's own view: it cannot reach (or refuses) follower r.ID
		if n != nil {
			if n.unreach == nil {
				n.unreach = map[uint64]bool{}
			}
			n.unreach[r.ID] = r.On
			a.stat("unreachable-reports")
		}
	case "commit-ready", "quorum-unreachable", "snap-taken":
		a.onState(n, r, false)
	case "dump":
		a.onDump(n, r)
	case "fsm-update":
		a.onFsmUpdate(n, r)
	case "applied":
		a.onApplied(n, r)
	case "fsm-restore":
		n.fsmLen, n.fsmRoll = r.Cnt, r.H
		n.hasFsmVal = false
		a.onFsmRestore(n, r)
	case "restored":
		a.onRestored(n, r)
	case "snapmeta":
		a.onSnapMeta(n, r)
	case "client-call":
		op := &clientOp{rec: r, callSeq: r.Q, node: nodeKey{r.Cid, r.Nid}, inc: r.Inc}
		if n != nil && n.hasSt && n.st.State == "L" && n.inc == r.Inc {
			// what this leader has accepted so far
			op.leaderLast, op.leaderTerm = n.last, n.st.Term
		}
		a.ops[r.OpID] = op
		a.opOrder = append(a.opOrder, r.OpID)
	case "client-ret":
		if op := a.ops[r.OpID]; op != nil {
			op.ret, op.retSeq = r, r.Q
			// C07: a barrier (or read) answered by a leader comes after
			// everything that leader had accepted before it - on its own state
			// machine, which is where the answer is produced
			if (op.rec.Op == "barrier" || op.rec.Op == "read") && r.Kind == "ok" && op.leaderLast > 0 && n != nil && n.inc == op.inc {
				a.stat("leader-barriers-and-reads-checked-against-applied-index")
				if n.appliedIdx < op.leaderLast && n.st.Term == op.leaderTerm {
					a.find("C07", "answered-before-accepted-updates-applied", "", r.Q, "%s answered by leader %s while its state machine has applied up to %d: when the request was submitted the leader's log already ended at %d (entries it had accepted before)", op.rec.Op, n.key, n.appliedIdx, op.leaderLast)
				}
			}
		}
	case "admin-call":
		if (r.Op == "changeconfig" || r.Op == "bootstrap") && n != nil && r.Cfg != nil {
			a.cfgReqs[r.OpID] = &cfgReq{node: n.key, inc: n.inc, cfg: r.Cfg}
			a.cfgReqSeen = true
		}
		if r.Op == "transfer" && n != nil {
			a.xfers[r.OpID] = &xferOp{callSeq: r.Q, node: n.key, inc: n.inc, term: n.st.Term}
		}
	case "admin-ret":
		delete(a.cfgReqs, r.OpID)
		a.onAdminRet(n, r)
	case "info":
		a.onInfo(n, r)
	case "serving":
		a.onServing(n, r, true)
	case "served":
		a.onServing(n, r, false)
	case "honeypot-handshake":
		a.stat("handshakes-refused-by-honeypot")
	case "honeypot-request":
		a.find("C20", "request-sent-after-refused-handshake", "", r.Q, "node %d of cluster %d sent a %s request (term %d) on a connection whose identity handshake had been refused (it had dialled the address of node %d)", r.Src, r.Cid, r.RPC, r.ReqTerm, r.Nid)
	case "exclusive":
		a.onExclusive(n, r)
	case "serve-exit":
		a.onServeExit(n, r)
	case "shutting-down":
		a.onShuttingDown(n, r)
	case "open-failed", "restart-failed":
		a.find("C10", "restart-fails", "restart-fails:"+firstWords(r.Err, 6), r.Q, "node %d/%d cannot be restarted on %s: %s", r.Cid, r.Nid, r.Dir, r.Err)
	case "task-stuck":
		a.find("C15", "task-never-completed", "task-never-completed:"+r.Op, r.Q, "task %s (op %d) on %s not done after shutdown of all nodes", r.Op, r.OpID, n.key)
		if r.Op == "transfer" {
			a.find("C16", "transfer-neither-completes-nor-fails", "", r.Q, "the leadership transfer (op %d) submitted to %s is not done even after the shutdown of all nodes", r.OpID, n.key)
		}
	case "serve-stuck", "info-stuck", "clients-stuck":
		a.find("C15", r.K, "", r.Q, "%s on node %d/%d", r.K, r.Cid, r.Nid)
	case "shutdown-ret":
		if r.Err != "" {
			a.find("C15", "shutdown-did-not-finish", "", r.Q, "Shutdown of %s: %s", n.key, r.Err)
		}
		a.stat("shutdowns")
	case "tick":
		a.ticks++
	case "quiet-begin":
		a.setHealthy(true)
	case "quiet-end":
		a.setHealthy(false)
	case "fault":
		a.setHealthy(false)
		a.stat("faults")
		a.stat("fault:" + r.Op)
		a.shape("f:" + r.Op)
		if strings.HasPrefix(r.Op, "install-crash at ") || strings.HasPrefix(r.Op, "bootstrap-crash at ") || strings.HasPrefix(r.Op, "directed-crash at ") {
			a.stat("directed-crash-windows")
		}
	case "faults-stopped":
		a.faultsStopped = true
		a.setHealthy(true)
	case "converged":
		a.stat("converged")
		a.rep.Stats["convergence-ticks"] = r.Cnt
	case "converged-late":
		a.rep.Inconclusive = append(a.rep.Inconclusive, fmt.Sprintf("converged late: %d ticks (%s)", r.Cnt, r.Note))
	case "not-converged":
		sig := "no-progress:" + firstWords(r.Note, 3)
		if strings.HasPrefix(r.Note, "faulty follower:") && a.rep.Stats["fault:wipe-follower"] > 0 {
			sig = "no-progress:wiped-follower-refused-as-faulty"
		}
		if strings.HasPrefix(r.Note, "no leader: uncommitted self-demotion:") {
			sig = "no-progress:uncommitted-self-demotion-needs-own-vote"
		}
		a.find("C17", "no-progress-after-faults-stopped", sig, r.Q, "no convergence within %d ticks after faults stopped: %s", r.Cnt, r.Note)
		if a.rep.Stats["compactions"] > 0 && sig != "no-progress:wiped-follower-refused-as-faulty" && sig != "no-progress:uncommitted-self-demotion-needs-own-vote" {
			// C09: compaction must not leave a node that cannot be brought up to date
			a.find("C09", "not-brought-up-to-date-after-compaction", "after-compaction:"+sig, r.Q, "logs were compacted in this run and afterwards: %s", r.Note)
		}
	case "harness-error":
		a.rep.Inconclusive = append(a.rep.Inconclusive, "harness error: "+r.Err)
	case "result-ownership":
		a.stat("task-results-checked-for-ownership:" + r.Kind)
		if r.Kind == "shared" {
			a.find("C15", "task-result-is-live-state", "", r.Q, "the configuration returned by WaitForStableConfig on %d/%d is the node's own: a change the caller made to it (without submitting anything) shows in the node's next status report", r.Cid, r.Nid)
			a.find("C08", "task-result-is-live-state", "", r.Q, "the configuration returned by WaitForStableConfig on %d/%d is the node's own: the caller's edits change the configuration the leader operates under, without any request", r.Cid, r.Nid)
			a.find("C06", "task-result-is-live-state", "", r.Q, "the configuration returned by WaitForStableConfig on %d/%d is the node's own: the set of voters the leader counts acknowledgements against is in the caller's hands (an edit of the result changes what a majority is)", r.Cid, r.Nid)
		}
	case "lifecycle":
		a.stat("lifecycle:" + r.Op + ":" + r.Kind)
		if r.Kind == "hangs" {
			a.find("C15", "shutdown-does-not-finish", "shutdown-does-not-finish:"+r.Op, r.Q, "%s: Shutdown did not return within 20 heartbeat timeouts (%s)", r.Op, r.Note)
		}
		if r.Kind == "panics" {
			a.find("C15", "call-panics-instead-of-returning-an-error", "call-panics:"+r.Op, r.Q, "%s panics: %s", r.Op, r.Note)
		}
	case "foreign-dialer-outcome":
		a.stat("foreign-dialer:" + r.Kind)
		if r.Kind == "no-election" {
			a.find("C20", "foreign-peer-suppresses-elections", "", r.Q, "cluster %d: the leader %d is gone for 40 heartbeat timeouts, but the followers elect nobody while a node of another cluster with the leader's node id keeps dialling them (every attempt is refused at the identity handshake)", r.Cid, r.Nid)
		}
	case "transfer-unanswered":
		a.find("C16", "transfer-neither-completes-nor-fails", "", r.Q, "the leadership transfer to %d submitted to %s (timeout %s) has not been answered a minute later, and the node is running", r.Tgt, n.key, r.Note)
	case "params":
		var hb int64
		if _, err := fmt.Sscanf(r.Note, "hb=%dms", &hb); err == nil {
			a.hbMs = hb
		}
	case "wait-abandoned":
		a.stat("waits-abandoned-by-the-harness")
	case "after-failed-transfer":
		a.stat("after-failed-transfer:" + r.Kind)
		if r.Kind == "unresponsive" {
			a.find("C16", "node-unresponsive-after-failed-transfer", "", r.Q, "%s answered a leadership transfer with %q and 15 s later does not even report its status: the failed transfer left the node (and with it the cluster it still heartbeats) without a working leader", n.key, r.Err)
		}
	case "bounded-catch-up":
		a.stat("bounded-catch-up:" + r.Kind)
		if r.Kind == "never" {
			a.find("C17", "reachable-node-not-brought-up-to-date", "not-brought-up-to-date:idle-non-voter-after-restart", r.Q, "cluster %d: non-voter %d was restarted while the cluster idles; 60 heartbeat timeouts later, with every node running and connected, its state machine still lacks the %d updates it had applied before (%s)", r.Cid, r.Nid, r.Cnt, r.Note)
		}
	case "bounded-election":
		a.stat("bounded-election:" + r.Kind)
		if r.Kind == "no-election" {
			a.find("C17", "healthy-majority-elects-nobody", "", r.Q, "cluster %d: the leader %d has been silent for 40 heartbeat timeouts; a majority of the voters of the committed configuration is running and connected (node %d among them, promoted by a configuration it has not received), and nobody is elected: %s", r.Cid, r.Nid, r.ID, r.Note)
		}
	case "pending-action-after-transfer":
		a.stat("pending-actions-after-failed-transfer:" + r.Kind)
		if r.Kind == "stuck" {
			a.find("C16", "membership-action-not-resumed-after-failed-transfer", "", r.Q, "leader %d/%d: the leadership transfer failed (%s), and 30 heartbeat timeouts later, with no fault active, the pending promotion has not been carried out: %s", r.Cid, r.Nid, r.Err, cfgString(r.Cfg))
		}
	case "remote-error":
		a.stat("remote-errors:" + r.Note)
	case "remote-error-unrecognisable":
		a.find("C18", "remote-error-not-the-sentinel", "", r.Q, "the remote client returned an error that reads %q but is not %s", r.Err, r.Note)
	case "remote-info":
		a.stat("remote-status-reports:" + r.Kind)
		if r.Kind == "equal" && r.Cnt > 0 {
			a.stat("remote-status-reports-with-followers")
		}
		if r.Kind == "differs" {
			a.find("C18", "status-report-differs-over-the-wire", "", r.Q, "the status of node %d/%d obtained through the remote client differs from the in-process report (which did not change meanwhile): %s", r.Cid, r.Nid, r.Note)
		}
	case "wire-truncated":
		a.stat("bursts-cut-in-the-middle")
		a.wireQ = nil // the requests announced last did not arrive whole
	case "wire-id":
		a.wireIDs[r.ID] = true
		if r.Src != 0 {
			a.alias[r.ID] = r.Src
		}
	case "wire-send":
		a.wireQ = append(a.wireQ, r)
		a.stat("wire-requests")
		a.stat("wire:" + r.RPC + ":" + r.Note)
	case "wire-recv":
		a.stat("wire-replies:" + r.RPC + ":" + r.Res)
		if r.Err != "" {
			a.wireQ = nil
			a.stat("wire-reply-errors")
			a.stat("wire-reply-error:" + r.RPC + ":" + firstWords(r.Err, 4))
			if !a.nutGone && a.rep.Stats["crashes"] == 0 && a.rep.Stats["graceful-restarts"] == 0 && a.rep.Stats["wiped-restarts"] == 0 {
				// C18: the peer wrote a whole request on a connection nobody
				// disturbed; no reply, or one that does not decode, means the
				// stream lost its framing (something before it was not consumed
				// exactly)
				a.find("C18", "reply-missing-or-malformed", "", r.Q, "wire-level peer %d sent a complete %s request (term %d) on an undisturbed connection and got no well-formed reply: %s", r.Src, r.RPC, r.ReqTerm, r.Err)
			}
		}
	case "nut-gone":
		a.nutGone = true
		a.find("C15", "node-stopped-serving", "", r.Q, "the node under test stopped serving while peers kept sending requests")
	case "end":
		a.ended = true
	case "logfs-point":
		a.rep.Stats["point:"+r.Point] += r.Cnt
	case "logfs-op":
		a.rep.Stats["op:"+r.Op] += r.Cnt
	case "logfs-program":
		a.rep.CaseCount++
		// non-trivial: the program made the log span several segments
		if r.Occ >= 2 {
			a.rep.Cases = append(a.rep.Cases, fmt.Sprintf("%x", r.H))
		}
		if r.Note != "" {
			a.sample("program", r.Note)
		}
	case "case-summary":
		a.rep.CaseCount += int(r.Cnt)
		a.rep.DistinctCases += int(r.Pos)
	case "case":
		a.rep.CaseCount++
		if r.On {
			a.rep.Cases = append(a.rep.Cases, fmt.Sprintf("%x", r.H))
		}
		if r.Note != "" {
			a.sample("case", r.Note)
		}
	case "assert":
		a.find(r.Note, "online-assertion", r.Reason, r.Q, "%s", r.Err)
	}
}

func firstWords(s string, n int) string {
	f := strings.Fields(s)
	if len(f) > n {
		f = f[:n]
	}
	// strip digits so signatures do not depend on indexes / paths
	out := strings.Join(f, " ")
	var b strings.Builder
	for _, c := range out {
		if c >= '0' && c <= '9' {
			continue
		}
		b.WriteRune(c)
	}
	return b.String()
}

// state tracking -----------------------------------------------------------------

// onState records the raft-goroutine state carried by r and checks the
// per-node status invariants (C05 term monotonicity, C19 ordering).
func (a *Analyzer) onState(n *nodeState, r *ev.Rec, isStep bool) {
	if n == nil || r.St == nil {
		return
	}
	st := r.St
	if st.State == "" {
		// storage-level observation without node state
		return
	}
	a.checkTerm(n, st.Term, r.Q, r.K)
	// C19 (internal fields, sampled where another goroutine could observe them)
	if isStep {
		a.stat("steps")
		if st.Commit > st.Last {
			a.find("C19", "commit-beyond-last", "", r.Q, "%s: commit %d > last log index %d", n.key, st.Commit, st.Last)
		}
		if st.Prev > st.Snap {
			a.find("C19", "first-beyond-snapshot", "", r.Q, "%s: first log index-1 %d > snapshot index %d", n.key, st.Prev, st.Snap)
		}
		if st.Snap > st.Last {
			a.find("C19", "snapshot-beyond-last", "", r.Q, "%s: snapshot index %d > last log index %d", n.key, st.Snap, st.Last)
		}
		if st.CfgC > st.CfgL {
			a.find("C19", "committed-config-beyond-latest", "", r.Q, "%s: committed config index %d > latest %d", n.key, st.CfgC, st.CfgL)
		}
		if n.hasSt {
			if st.Commit < n.st.Commit {
				a.find("C19", "commit-regress", "", r.Q, "%s: commit index %d -> %d", n.key, n.st.Commit, st.Commit)
			}
			if st.Snap < n.st.Snap {
				a.find("C19", "snapshot-regress", "", r.Q, "%s: snapshot index %d -> %d", n.key, n.st.Snap, st.Snap)
			}
		}
		// latest config = newest config entry in log or snapshot
		var m uint64
		for i := range n.cfgs {
			if i > m {
				m = i
			}
		}
		if m > 0 {
			if st.CfgL != m && !(st.CfgL > m && st.CfgL <= st.Snap) {
				a.find("C19", "latest-config-not-newest-entry", "", r.Q, "%s: latest config index %d but newest config entry in log is %d", n.key, st.CfgL, m)
			}
		} else if st.CfgL > st.Snap && st.CfgL > n.prev {
			a.find("C19", "latest-config-not-in-log", "", r.Q, "%s: latest config index %d not in log nor snapshot (snap %d)", n.key, st.CfgL, st.Snap)
		}
		// C11: a leader without its own vote in a committed configuration must step down in that step
		if n.pendingDemote != 0 {
			if st.State == "L" {
				a.find("C11", "leader-keeps-leading-without-vote", "", r.Q, "%s still leader at the end of the step in which a configuration without its vote was committed", n.key)
			}
			n.pendingDemote = 0
		}
	}
	n.st, n.hasSt = *st, true
}

func (a *Analyzer) checkTerm(n *nodeState, term uint64, seq int64, what string) {
	if term < n.maxTerm {
		a.find("C05", "term-regress", "term-regress:"+what, seq, "%s reports term %d after having reported %d (at seq %d) [%s]", n.key, term, n.maxTerm, n.maxTermSeq, what)
	}
	if term > n.maxTerm {
		n.maxTerm, n.maxTermSeq = term, seq
	}
}

func (a *Analyzer) onOpen(n *nodeState, r *ev.Rec) {
	a.stat("incarnations")
	prevInc := n.inc
	n.inc = r.Inc
	n.followL, n.followT, n.othersServed = 0, 0, nil
	oldLog, oldPrev, oldLast := n.log, n.prev, n.last
	n.log = map[uint64]entryInfo{}
	n.cfgs = map[uint64]*ev.Cfg{}
	n.prev = r.Prev
	n.last = r.Prev
	for i := range r.Log {
		e := r.Log[i]
		n.log[e.Index] = entryInfo{e.Term, e.Typ, e.Hash}
		if e.Index > n.last {
			n.last = e.Index
		}
		if e.Typ == ev.TypConfig {
			if c := a.cfgPayload[[3]uint64{n.key.cid, e.Index, e.Term}]; c != nil {
				n.cfgs[e.Index] = c
			} else {
				n.cfgs[e.Index] = &ev.Cfg{Index: e.Index, Term: e.Term} // payload unknown
			}
		}
	}
	if r.Err != "" {
		a.find("C10", "log-unreadable-after-restart", "", r.Q, "%s: reading the log after open: %s", n.key, r.Err)
	}
	st := r.St
	wipe := prevInc > 0 && st.Term == 0 && st.Last == 0 && !n.crashed
	if wipe {
		// the harness brought the node back with an empty directory
		n.maxTerm, n.ackVoteTerm, n.ackVoteFor, n.needLast = 0, 0, 0, 0
		n.lastPersisted = [2]uint64{}
		a.stat("wiped-restarts")
	}
	if prevInc > 0 && !wipe {
		// C05 / C10: term and vote no older than acknowledged
		if st.Term < n.maxTerm {
			a.find("C05", "term-regress-after-restart", "", r.Q, "%s restarts with term %d, had reported %d", n.key, st.Term, n.maxTerm)
			a.find("C10", "term-regress-after-restart", "", r.Q, "%s restarts with term %d, had reported %d (crash point %q)", n.key, st.Term, n.maxTerm, n.crashPoint)
		}
		if n.ackVoteTerm != 0 && st.Term == n.ackVoteTerm && st.Vote != n.ackVoteFor {
			a.find("C01", "vote-lost-after-restart", "", r.Q, "%s granted its vote in term %d to %d but restarts in that term with vote %d: it can vote for another candidate in the same term", n.key, n.ackVoteTerm, n.ackVoteFor, st.Vote)
			a.find("C05", "vote-lost-after-restart", "", r.Q, "%s granted its vote in term %d to %d but restarts with vote %d", n.key, n.ackVoteTerm, n.ackVoteFor, st.Vote)
			a.find("C10", "vote-lost-after-restart", "", r.Q, "%s granted its vote in term %d to %d but restarts with vote %d (crash point %q)", n.key, n.ackVoteTerm, n.ackVoteFor, st.Vote, n.crashPoint)
		}
		ref, refPrev, refLast, need := oldLog, oldPrev, oldLast, n.needLast
		if n.crashed {
			ref, refPrev, refLast, need = n.crashLog, n.crashPrev, n.crashLast, n.crashNeed
		}
		_ = refPrev
		// nothing invented; acknowledged entries retained
		for idx, e := range n.log {
			if o, ok := ref[idx]; ok {
				if o != e {
					a.find("C10", "entry-changed-across-restart", "", r.Q, "%s: entry %d is (t%d,%x) after restart, was (t%d,%x)", n.key, idx, e.term, e.hash, o.term, o.hash)
				}
			} else if idx > refLast {
				a.find("C10", "entry-appears-after-restart", "", r.Q, "%s: entry %d (t%d) present after restart was never appended (last %d)", n.key, idx, e.term, refLast)
			}
		}
		for idx := n.last + 1; idx <= need; idx++ {
			if _, ok := ref[idx]; ok && idx > st.Snap {
				a.find("C10", "acknowledged-entry-lost", "acknowledged-entry-lost:"+n.crashPoint, r.Q, "%s: entry %d acknowledged as stored is missing after restart (last %d, snapshot %d, crash point %q)", n.key, idx, n.last, st.Snap, n.crashPoint)
				break
			}
		}
		// (a graceful Shutdown does not flush the log either: entries that were
		// appended but never acknowledged may be gone after any restart)
		_ = oldLast
		// contiguous with snapshot
		if st.Snap > 0 {
			// the entry at the snapshot index, if the log still holds it, is
			// the one the snapshot ends with
			for i := range r.Log {
				if x := r.Log[i]; x.Index == st.Snap && x.Term != st.SnapTerm {
					a.find("C10", "log-contradicts-snapshot-after-restart", fmt.Sprintf("log-contradicts-snapshot-after-restart:%s", n.crashPoint), r.Q, "%s after restart: its snapshot ends at (%d,t%d) but its log holds (%d,t%d) there (crash point %q)", n.key, st.Snap, st.SnapTerm, x.Index, x.Term, n.crashPoint)
				}
				// terms never decrease along a log: what follows the snapshot
				// cannot be older than the entry the snapshot ends with. A log
				// that begins right behind the snapshot with an older term is
				// the tail of the history the snapshot replaced.
				if x := r.Log[i]; x.Index > st.Snap && x.Term < st.SnapTerm {
					a.find("C10", "log-behind-snapshot-is-older-than-the-snapshot", fmt.Sprintf("log-behind-snapshot-is-older-than-the-snapshot:%s", n.crashPoint), r.Q, "%s after restart: its snapshot ends at (%d,t%d) and its log goes on with (%d,t%d) - entries of the history that snapshot replaced (log (%d,%d], crash point %q)", n.key, st.Snap, st.SnapTerm, x.Index, x.Term, st.Prev, st.Last, n.crashPoint)
					a.find("C04", "log-behind-snapshot-is-older-than-the-snapshot", "", r.Q, "%s after restart holds (%d,t%d) behind a snapshot that ends at (%d,t%d)", n.key, x.Index, x.Term, st.Snap, st.SnapTerm)
					break
				}
			}
		}
		if st.LogLast != st.Last {
			// the position at which the log file appends differs from the index
			// the node gives its next entry
			a.find("C10", "log-position-differs-from-last-index", fmt.Sprintf("log-position-differs-from-last-index:%s", n.crashPoint), r.Q, "%s after restart: the log file ends at %d but the node's last index is %d (first-1=%d snapshot=%d, crash point %q)", n.key, st.LogLast, st.Last, st.Prev, st.Snap, n.crashPoint)
		}
		if st.Prev > st.Snap || st.Snap > st.Last {
			a.find("C10", "log-not-contiguous-with-snapshot", fmt.Sprintf("log-not-contiguous-with-snapshot:%s", n.crashPoint), r.Q, "%s after restart: first-1=%d snapshot=%d last=%d (crash point %q)", n.key, st.Prev, st.Snap, st.Last, n.crashPoint)
			if strings.HasPrefix(n.crashPoint, "install.") || strings.HasPrefix(n.crashPoint, "log.reset") || n.crashPoint == "clearLog" {
				// C09: an installation that was interrupted must leave a node that
				// restarts into a usable state and can be brought up to date
				a.find("C09", "interrupted-installation-leaves-unusable-node", "", r.Q, "%s restarts after a kill inside a snapshot installation (%s) with snapshot %d but a log (%d,%d] that does not reach it", n.key, n.crashPoint, st.Snap, st.Prev, st.Last)
			}
		}
		if n.crashed {
			a.stat("crash-restarts")
			a.sample("crash-restart", fmt.Sprintf("%s crash@%s -> reopened term=%d vote=%d log=(%d,%d] snap=%d", n.key, n.crashPoint, st.Term, st.Vote, st.Prev, st.Last, st.Snap))
		} else {
			a.stat("graceful-restarts")
		}
	}
	n.crashed, n.crashLog = false, nil
	n.st, n.hasSt = *st, true
	n.commit = st.Commit
	n.latest = r.Cfg
	n.frontier = n.last // everything found on disk is durable
	n.needLast = 0
	n.lastInfo = nil
	n.appliedIdx, n.fsmLen, n.fsmRoll, n.hasFsmVal = 0, 0, ev.RollInit, false
	n.pendingDemote = 0
	n.rounds = map[uint64]bool{}
	n.roundDone = map[uint64]uint64{}
	n.serving = false
	n.snapTouched = st.Snap > 0
	a.checkTerm(n, st.Term, r.Q, "open")
	// ledger sightings (C04) and config entries
	for i := range r.Log {
		e := r.Log[i]
		a.sight(n, e.Index, entryInfo{e.Term, e.Typ, e.Hash}, r.Q)
	}
	// C12: membership after restart = newest config entry in log, else the label
	var m uint64
	for i := range r.Log {
		if r.Log[i].Typ == ev.TypConfig && r.Log[i].Index > m && r.Log[i].Index > st.Snap {
			m = r.Log[i].Index
		}
	}
	if r.Cfg != nil && !a.isWire(n.key.nid) {
		if m > 0 && r.Cfg.Index != m {
			a.find("C12", "membership-after-restart-not-newest-entry", "", r.Q, "%s restarts with membership %s but the newest configuration entry in its log is at %d", n.key, cfgString(r.Cfg), m)
		}
		if m == 0 && st.Snap > 0 {
			if lab := n.snapLabels[st.Snap]; lab != nil && lab.Cfg != nil && lab.Cfg.Index != r.Cfg.Index {
				a.find("C12", "membership-after-restart-not-label", "", r.Q, "%s restarts with membership %s but its snapshot %d is labelled %s", n.key, cfgString(r.Cfg), st.Snap, cfgString(lab.Cfg))
			}
		}
	}
	// C12: the membership it falls back to when the newest entry is taken
	// away again (the one it regards as committed) is the configuration entry
	// before the newest one beyond the snapshot, else the snapshot's label
	if r.Cfg != nil && r.CfgC != nil && !a.isWire(n.key.nid) {
		var second uint64
		for i := range r.Log {
			if x := r.Log[i]; x.Typ == ev.TypConfig && x.Index > st.Snap && x.Index < m && x.Index > second {
				second = x.Index
			}
		}
		switch {
		case m > 0 && second > 0:
			if r.CfgC.Index != second {
				a.find("C12", "fallback-membership-after-restart-wrong", "", r.Q, "%s restarts with configuration entries %d and %d beyond its snapshot %d, but the membership it would fall back to is %s", n.key, second, m, st.Snap, cfgString(r.CfgC))
			}
		case m > 0 && st.Snap > 0:
			lab := n.snapLabels[st.Snap]
			if r.CfgC.Index == 0 || r.CfgC.Index > st.Snap || (lab != nil && lab.Cfg != nil && lab.Cfg.Index != r.CfgC.Index) {
				want := "its snapshot's label"
				if lab != nil && lab.Cfg != nil {
					want = cfgString(lab.Cfg)
				}
				a.find("C12", "fallback-membership-after-restart-wrong", "", r.Q, "%s restarts with one configuration entry (%d) beyond its snapshot %d: the membership it would fall back to is %s, want %s", n.key, m, st.Snap, cfgString(r.CfgC), want)
			}
		}
		a.stat("fallback-memberships-checked-after-restart")
	}
	a.shape(fmt.Sprintf("open:%d", n.key.nid))
}

func (a *Analyzer) onCrash(n *nodeState, r *ev.Rec) {
	if n == nil {
		return
	}
	a.stat("crashes")
	a.stat("crash@" + r.Point)
	n.crashed = true
	n.followL, n.followT, n.othersServed = 0, 0, nil
	n.crashPoint = r.Point
	n.crashLog = n.log
	n.crashPrev, n.crashLast, n.crashNeed = n.prev, n.last, n.needLast
	if n.truncPending != 0 && n.crashNeed >= n.truncPending {
		// killed in the middle of a truncation: what was being removed (entries
		// that conflict with the leader's) may or may not be gone
		n.crashNeed = n.truncPending - 1
	}
	n.truncPending = 0
	n.serving = false
	if r.Err != "" {
		a.rep.Inconclusive = append(a.rep.Inconclusive, "crash image copy failed: "+r.Err)
	}
	a.shape(fmt.Sprintf("crash:%d@%s", n.key.nid, r.Point))
}

// sight records an (index, term) sighting in the global ledger (C04).
func (a *Analyzer) sight(n *nodeState, idx uint64, e entryInfo, seq int64) {
	cid := n.key.cid
	l := a.ledger[cid]
	if l == nil {
		l = map[[2]uint64]ledgerEntry{}
		a.ledger[cid] = l
	}
	k := [2]uint64{idx, e.term}
	le := ledgerEntry{entryInfo: e, seq: seq, who: n.key.String()}
	if p, ok := n.log[idx-1]; ok {
		le.prevTerm, le.hasPrev = p.term, true
	}
	old, ok := l[k]
	if !ok {
		l[k] = le
		return
	}
	a.stat("ledger-rechecks")
	if old.typ != e.typ || old.hash != e.hash {
		a.find("C04", "same-index-term-different-entry", "", seq, "entry (%d,t%d) on %s is typ %d hash %x but was typ %d hash %x on %s (seq %d)", idx, e.term, n.key, e.typ, e.hash, old.typ, old.hash, old.who, old.seq)
	}
	if old.hasPrev && le.hasPrev && old.prevTerm != le.prevTerm {
		a.find("C04", "same-index-term-different-prefix", "", seq, "entry (%d,t%d): predecessor term %d on %s but %d on %s", idx, e.term, le.prevTerm, n.key, old.prevTerm, old.who)
	}
	if !old.hasPrev && le.hasPrev {
		old.prevTerm, old.hasPrev = le.prevTerm, true
		l[k] = old
	}
}

func (a *Analyzer) onAppend(n *nodeState, r *ev.Rec) {
	if n == nil || r.E == nil {
		return
	}
	a.stat("appends")
	e := r.E
	info := entryInfo{e.Term, e.Typ, e.Hash}
	if e.Index != n.last+1 {
		a.find("C04", "append-not-at-end", "", r.Q, "%s appends index %d while its last index is %d", n.key, e.Index, n.last)
	}
	st := r.St
	isLeader := st != nil && st.State == "L"
	if isLeader {
		a.stat("leader-appends")
		if st.Xfer {
			a.find("C16", "append-during-transfer", "", r.Q, "leader %s appended entry %d (typ %d) while a leadership transfer is in progress", n.key, e.Index, e.Typ)
		}
		if e.Term != st.Term {
			a.find("C04", "leader-appends-foreign-term", "", r.Q, "leader %s in term %d appends entry of term %d", n.key, st.Term, e.Term)
		}
	}
	// C08: configuration chain
	if e.Typ == ev.TypConfig && r.Cfg != nil {
		a.stat("config-entries")
		var predIdx uint64
		for i := range n.cfgs {
			if i < e.Index && i > predIdx {
				predIdx = i
			}
		}
		var pred *ev.Cfg
		if predIdx > 0 {
			pred = n.cfgs[predIdx]
		} else if n.latest != nil && n.latest.Index > 0 && n.latest.Index < e.Index {
			pred = n.latest
		}
		nv := voterSet(r.Cfg)
		if len(nv) == 0 {
			a.find("C08", "config-without-voter", "", r.Q, "%s: configuration entry %d has no voter: %s", n.key, e.Index, cfgString(r.Cfg))
		}
		if pred != nil && pred.Nodes != nil && isLeader && !a.isWire(n.key.nid) {
			// C11: a node gains its vote only after this leader saw it catch up
			pv := voterSet(pred)
			for id := range nv {
				if !pv[id] && pred.Has(id) || (!pv[id] && !pred.Has(id) && e.Index > 1) {
					a.stat("voters-added")
					if !n.rounds[id] {
						a.find("C11", "voter-added-without-catch-up", "", r.Q, "leader %s appends configuration %s in which %d gains its vote (predecessor %s) without a completed catch-up round for it", n.key, cfgString(r.Cfg), id, cfgString(pred))
					}
				}
			}
		}
		if pred != nil && pred.Nodes != nil && isLeader && !a.isWire(n.key.nid) && a.cfgReqSeen {
			// a voting right changes only because somebody asked for it: the
			// action is recorded in the predecessor or in a request that is
			// pending on this leader
			pv := voterSet(pred)
			for _, id := range changedVoters(pv, nv) {
				var want []uint8
				switch {
				case nv[id]:
					want = []uint8{1} // promote
				case r.Cfg.Has(id):
					want = []uint8{2, 3} // demote, remove (first step)
				default:
					want = []uint8{3, 4} // remove, force-remove
				}
				ok := actionIn(pred, id, want)
				for _, q := range a.cfgReqs {
					if q.node == n.key && q.inc == n.inc && actionIn(q.cfg, id, want) {
						ok = true
					}
				}
				if !ok {
					a.find("C08", "voter-change-nobody-asked-for", "", r.Q, "leader %s appends configuration %s in which the voting right of %d changes, but neither its predecessor %s nor a pending request on this leader asks for that", n.key, cfgString(r.Cfg), id, cfgString(pred))
				}
				a.stat("voter-changes-traced-to-a-request")
			}
		}
		if pred != nil && pred.Nodes != nil {
			if d := symDiff(voterSet(pred), nv); d > 1 {
				a.find("C08", "config-changes-more-than-one-voter", "", r.Q, "%s: configuration %s follows %s: %d voters differ", n.key, cfgString(r.Cfg), cfgString(pred), d)
			}
			a.stat("config-chain-links")
			a.sample("config-chain", cfgString(pred)+" -> "+cfgString(r.Cfg))
		}
		if isLeader && e.Index > 1 && st.CfgL > 0 && !a.isWire(n.key.nid) {
			// the previous configuration is committed in fact: its entry is in
			// the log of a majority of its own voters
			if pc := n.latest; pc != nil && pc.Index == st.CfgL && pc.Nodes != nil {
				if pe, ok := n.log[st.CfgL]; ok {
					vs := pc.Voters()
					have := 0
					for _, v := range vs {
						x := a.nodes[nodeKey{n.key.cid, v}]
						if x == nil {
							continue
						}
						lg := x.log
						if x.crashed {
							lg = x.crashLog
						}
						if xe, ok := lg[st.CfgL]; (ok && xe.term == pe.term) || (st.CfgL <= x.prev && x.st.Snap >= st.CfgL) {
							have++
						}
					}
					a.stat("config-predecessor-majority-checks")
					if have < majority(len(vs)) {
						a.find("C08", "config-over-config-not-on-majority", "", r.Q, "leader %s appends configuration entry %d while its previous configuration %s is in the log of only %d of its %d voters", n.key, e.Index, cfgString(pc), have, len(vs))
					}
				}
			}
		}
		if isLeader && e.Index > 1 && !a.isWire(n.key.nid) {
			if st.Commit < st.CfgL {
				a.find("C08", "config-over-uncommitted-config", "", r.Q, "leader %s appends configuration entry %d while its previous configuration (index %d) is not committed (commit %d)", n.key, e.Index, st.CfgL, st.Commit)
			}
			if st.Commit < st.LdrStart {
				a.find("C08", "config-before-own-term-commit", "config-before-own-term-commit", r.Q, "leader %s (term %d, first own index %d) appends configuration entry %d before committing an entry of its term (commit %d)", n.key, st.Term, st.LdrStart, e.Index, st.Commit)
			}
		}
		if e.Index > 1 {
			if p, ok := n.log[e.Index-1]; ok && p.term < e.Term {
				a.find("C08", "config-is-first-entry-of-term", "config-before-own-term-commit", r.Q, "%s: configuration entry %d is the first entry of term %d (previous entry has term %d)", n.key, e.Index, e.Term, p.term)
			}
		}
		n.cfgs[e.Index] = r.Cfg
	}
	a.onState(n, r, false)
	n.log[e.Index] = info
	n.last = e.Index
	a.sight(n, e.Index, info, r.Q)
	if e.Typ == ev.TypConfig && r.Cfg != nil {
		if l := a.ledger[n.key.cid]; l != nil {
			_ = l
		}
		a.cfgOf(n.key.cid, e.Index, e.Term, r.Cfg)
	}
}

// configuration payloads by (index, term)
var _ = sort.Ints

func (a *Analyzer) cfgOf(cid, idx, term uint64, c *ev.Cfg) {
	m := a.committed[cid]
	if m == nil {
		m = map[uint64]*committedInfo{}
		a.committed[cid] = m
	}
	if ci := m[idx]; ci != nil && ci.term == term && ci.cfg == nil {
		ci.cfg = c
	}
	if a.cfgPayload == nil {
		a.cfgPayload = map[[3]uint64]*ev.Cfg{}
	}
	a.cfgPayload[[3]uint64{cid, idx, term}] = c
}

func (a *Analyzer) onTrunc(n *nodeState, r *ev.Rec) {
	if n == nil {
		return
	}
	a.stat("truncations")
	a.shape(fmt.Sprintf("trunc:%d", n.key.nid))
	if r.St != nil && r.St.State == "L" {
		a.find("C04", "leader-truncates-own-log", "", r.Q, "leader %s truncates its log from %d", n.key, r.Idx)
	}
	cm := a.committed[n.key.cid]
	for idx := r.Idx; idx <= n.last; idx++ {
		e, ok := n.log[idx]
		if !ok {
			continue
		}
		if ci := cm[idx]; ci != nil && ci.term == e.term && ci.hash == e.hash {
			if r.St != nil && r.St.Term < ci.obsTerm {
				// the node follows a leader of a term older than the one in
				// which the entry became committed: that leader need not hold
				// the entry, and a majority without this node does
				a.stat("truncations-of-entries-committed-in-a-later-term")
				continue
			}
			a.find("C02", "committed-entry-truncated", "", r.Q, "%s truncates from %d and thereby removes committed entry (%d,t%d)", n.key, r.Idx, idx, e.term)
			break
		}
	}
	for idx := r.Idx; idx <= n.last; idx++ {
		delete(n.log, idx)
		delete(n.cfgs, idx)
	}
	if r.Idx > 0 {
		n.last = r.Idx - 1
	}
	if n.frontier > n.last {
		n.frontier = n.last
	}
	if n.needLast > n.last {
		n.needLast = n.last
	}
	a.onState(n, r, false)
}

func (a *Analyzer) onClear(n *nodeState, r *ev.Rec) {
	if n == nil {
		return
	}
	a.stat("log-resets")
	n.snapTouched = true
	a.shape(fmt.Sprintf("clear:%d", n.key.nid))
	cm := a.committed[n.key.cid]
	for idx, e := range n.log {
		if idx > r.Idx {
			if ci := cm[idx]; ci != nil && ci.term == e.term && ci.hash == e.hash {
				a.find("C02", "committed-entry-discarded-by-install", "", r.Q, "%s discards its log for snapshot %d and thereby loses committed entry (%d,t%d)", n.key, r.Idx, idx, e.term)
				break
			}
		}
	}
	n.log = map[uint64]entryInfo{}
	n.cfgs = map[uint64]*ev.Cfg{}
	n.prev, n.last = r.Idx, r.Idx
	n.frontier = r.Idx
	if n.needLast > r.Idx {
		n.needLast = r.Idx
	}
}

func (a *Analyzer) onCompact(n *nodeState, r *ev.Rec) {
	if n == nil {
		return
	}
	a.stat("compactions")
	n.snapTouched = true
	a.shape(fmt.Sprintf("compact:%d", n.key.nid))
	if r.St != nil && r.Idx > r.St.Snap {
		a.find("C09", "compaction-beyond-snapshot", "", r.Q, "%s compacts its log up to %d but its snapshot covers only %d", n.key, r.Idx, r.St.Snap)
	}
	for idx := n.prev + 1; idx <= r.Idx; idx++ {
		delete(n.log, idx)
		delete(n.cfgs, idx)
	}
	if r.Idx > n.prev {
		n.prev = r.Idx
	}
	a.onState(n, r, false)
}

func (a *Analyzer) onDurable(n *nodeState, r *ev.Rec) {
	if n == nil {
		return
	}
	a.stat("flushes")
	f := r.Seg + uint64(r.Cnt)
	if f > n.frontier {
		n.frontier = f
	}
}

func (a *Analyzer) onPersist(n *nodeState, r *ev.Rec) {
	if n == nil {
		return
	}
	a.stat("term-vote-persists")
	if r.Term < n.lastPersisted[0] {
		a.find("C05", "persisted-term-regress", "", r.Q, "%s persists term %d after %d", n.key, r.Term, n.lastPersisted[0])
	}
	if r.Term == n.lastPersisted[0] && n.lastPersisted[1] != 0 && r.Vote != n.lastPersisted[1] {
		a.find("C05", "persisted-vote-changed", "", r.Q, "%s persists vote %d in term %d after vote %d", n.key, r.Vote, r.Term, n.lastPersisted[1])
	}
	n.lastPersisted = [2]uint64{r.Term, r.Vote}
}

// Finish runs the end-of-log checks and returns the report.
func (a *Analyzer) Finish() *Report {
	if a.flooded {
		a.rep.Inconclusive = append(a.rep.Inconclusive, fmt.Sprintf("event flood: more than %d events; beyond that only the convergence verdict was recorded", ev.MaxRecords))
	} else {
		a.finishClients()
		a.finishFSM()
	}
	if !a.ended {
		a.rep.Inconclusive = append(a.rep.Inconclusive, "run did not reach its end record")
	}
	a.rep.Stats["ticks"] = a.ticks
	a.rep.Stats["nodes"] = int64(len(a.nodes))
	a.rep.Stats["terms-with-leader"] = int64(len(a.leaderOf))
	var cm int64
	for _, m := range a.committed {
		cm += int64(len(m))
	}
	a.rep.Stats["committed-entries"] = cm
	return a.rep
}

// setHealthy starts or ends a period without active faults.
func (a *Analyzer) setHealthy(on bool) {
	a.healthy = on
	for _, n := range a.nodes {
		n.othersServed = nil
		if on && n.followL != 0 {
			n.othersServed = map[uint64]int{} // counting starts now
			n.followTick = a.ticks
		}
	}
}

// onLeaderContact: follower f handled a request of leader l (term t).
func (a *Analyzer) onLeaderContact(f *nodeState, l, t uint64, q int64) {
	if a.healthy {
		for _, x := range a.nodes {
			if x != f && x.key.cid == f.key.cid && x.followL == l && x.followT == t && x.othersServed != nil {
				x.othersServed[f.key.nid]++
				a.rep.Stats["heartbeat-fairness-checks"]++
				// a voter must hear from its leader within one heartbeat
				// timeout (4 ticks); 5 timeouts without, while another node
				// was served at least 8 times, is no accident of scheduling
				if x.othersServed[f.key.nid] >= 8 && a.ticks-x.followTick >= 20 {
					a.starved(x, f.key.nid, q)
				}
			}
		}
	}
	f.followL, f.followT, f.othersServed = l, t, nil
	f.followTick = a.ticks
	if a.healthy {
		f.othersServed = map[uint64]int{}
	}
	f.followCfg = 0
	if ln := a.nodes[nodeKey{f.key.cid, l}]; ln != nil && ln.latest != nil {
		f.followCfg = ln.latest.Index
	}
}

// starved (C17): in a period without faults a leader that keeps sending
// requests to one follower also sends some to every other voter of its
// configuration - otherwise that voter times out and disturbs a healthy
// cluster. The pattern (8 requests to one node, none to x, same leader still
// in office, configuration unchanged) is not something load can produce.
func (a *Analyzer) starved(x *nodeState, by uint64, q int64) {
	ln := a.nodes[nodeKey{x.key.cid, x.followL}]
	if ln == nil || !ln.hasSt || ln.st.State != "L" || ln.st.Term != x.followT || ln.crashed || x.crashed {
		return
	}
	if ln.latest == nil || ln.latest.Index != x.followCfg || !ln.latest.IsVoter(x.key.nid) {
		return
	}
	if ln.unreach[x.key.nid] {
		// the leader knows it is not getting through (it retries at its own
		// pace; a follower it refuses as faulty is the known finding D12)
		return
	}
	a.find("C17", "voter-starved-of-heartbeats", "", q, "leader %d (term %d, no fault active) has sent %d requests to node %d in the %d ticks (quarters of a heartbeat timeout) since it last contacted %s, a voter of its configuration %s, and none to that node", x.followL, x.followT, x.othersServed[by], by, a.ticks-x.followTick, x.key, cfgString(ln.latest))
	x.othersServed = map[uint64]int{}
}
