package oracle

import (
	"fmt"
	"sort"
	"strings"

	"verif/ev"
)

// elections, votes, leadership (C01, C05, C11, C16, C17) -----------------------------

func (a *Analyzer) onElection(n *nodeState, r *ev.Rec) {
	if n == nil || r.St == nil {
		return
	}
	a.stat("elections")
	a.shape(fmt.Sprintf("el:%d", n.key.nid))
	a.onState(n, r, false)
	t := r.St.Term
	// self vote
	a.recordVote(n.key.cid, n.key.nid, t, n.key.nid, r.Q, "self")
	lk := leaderKey{n.key.cid, t}
	if a.elCfg[lk] == nil {
		a.elCfg[lk] = map[uint64]*ev.Cfg{}
	}
	a.elCfg[lk][n.key.nid] = r.Cfg
	a.elXfer[[3]uint64{n.key.cid, n.key.nid, t}] = n.xferPermit
	if n.xferPermit {
		a.stat("elections-with-transfer-permission")
	}
	// C17: an election that no timeout can have started. The node handled a
	// request of its leader (which re-arms the election timer, at least one
	// heartbeat timeout from then) and campaigns less than half a heartbeat
	// timeout later without having been told to. Both times are taken from
	// the same monotonic clock of the one worker process, the first one
	// before the timer is re-armed, the second one after it fired: load can
	// only stretch the distance, never shrink it below the timeout.
	if !n.xferPermit && n.resetWall > 0 && a.hbMs > 0 && r.Wall > 0 {
		a.stat("elections-timed-against-the-last-leader-contact")
		if d := r.Wall - n.resetWall; d >= 0 && d < a.hbMs/2 {
			a.find("C17", "election-without-a-timeout", "", r.Q, "%s starts an election for term %d only %d ms after it handled a request of its leader (heartbeat timeout %d ms, the election timeout is at least that): an expired tick of the timer survived its re-arming, the node disturbs a leader it is hearing from", n.key, t, d, a.hbMs)
		}
	}
	// C11: only voters of their own latest configuration campaign
	if r.Cfg == nil || !r.Cfg.IsVoter(n.key.nid) {
		a.find("C11", "non-voter-starts-election", "", r.Q, "%s starts an election for term %d but is not a voter in its own latest configuration %s", n.key, t, cfgString(r.Cfg))
	}
}

func (a *Analyzer) recordVote(cid, voter, term, cand uint64, seq int64, how string) {
	k := voteKey{cid, voter, term}
	if old, ok := a.votes[k]; ok {
		if old != cand {
			a.find("C01", "two-votes-in-one-term", "", seq, "node %d/%d votes for %d in term %d (%s) after voting for %d", cid, voter, cand, term, how, old)
			a.find("C05", "two-votes-in-one-term", "", seq, "node %d/%d votes for %d in term %d (%s) after voting for %d", cid, voter, cand, term, how, old)
		}
		return
	}
	a.votes[k] = cand
	lk := leaderKey{cid, term}
	if a.grants[lk] == nil {
		a.grants[lk] = map[uint64]map[uint64]bool{}
	}
	if a.grants[lk][cand] == nil {
		a.grants[lk][cand] = map[uint64]bool{}
	}
	a.grants[lk][cand][voter] = true
}

// onStateChange handles tracer.stateChanged (emitted inside setState).
func (a *Analyzer) onStateChange(n *nodeState, r *ev.Rec) {
	if n == nil || r.St == nil {
		return
	}
	st := r.St
	a.stat("state-changes")
	a.shape(fmt.Sprintf("%s:%d", st.State, n.key.nid))
	if st.State == "L" {
		a.stat("leaders-elected")
		lk := leaderKey{n.key.cid, st.Term}
		if old, ok := a.leaderOf[lk]; ok && old != n.key.nid {
			a.find("C01", "two-leaders-in-one-term", "", r.Q, "nodes %d and %d of cluster %d are both leader in term %d (seq %d and %d)", old, n.key.nid, n.key.cid, st.Term, a.leaderAt[lk], r.Q)
		}
		if _, ok := a.leaderOf[lk]; !ok {
			a.leaderOf[lk], a.leaderAt[lk] = n.key.nid, r.Q
		}
		// grants produced so far for (term, n) among the voters of its configuration
		cfg := a.elCfg[lk][n.key.nid]
		if cfg == nil {
			cfg = n.latest
		}
		vs := voterSet(cfg)
		got := 0
		for v := range a.grants[lk][n.key.nid] {
			if vs[v] {
				got++
			}
		}
		a.sample("election", fmt.Sprintf("%s leader of term %d with %d/%d grants produced (%s)", n.key, st.Term, got, len(vs), cfgString(cfg)))
		if got < majority(len(vs)) && !a.isWire(n.key.nid) {
			a.find("C01", "leader-without-majority-of-grants", "", r.Q, "%s becomes leader of term %d with %d grants produced by voters of %s (needs %d)", n.key, st.Term, got, cfgString(cfg), majority(len(vs)))
			if a.elXfer[[3]uint64{n.key.cid, n.key.nid, st.Term}] {
				// the same fact seen from the transfer property: a designated
				// successor must win a real election
				a.find("C16", "transfer-target-elected-without-majority", "", r.Q, "%s, told to time out now, becomes leader of term %d with %d grants produced by voters of %s (needs %d)", n.key, st.Term, got, cfgString(cfg), majority(len(vs)))
			}
		}
		// C11
		if (cfg == nil || !cfg.IsVoter(n.key.nid)) && !a.isWire(n.key.nid) {
			a.find("C11", "non-voter-becomes-leader", "", r.Q, "%s becomes leader of term %d without being a voter in %s", n.key, st.Term, cfgString(cfg))
		}
		// C02 (c): the new leader holds every entry whose commit was observed
		// under a term not above its own
		cm := a.committed[n.key.cid]
		for idx, ci := range cm {
			if ci.obsTerm > st.Term {
				continue // a leader of an older term surfacing late: legal
			}
			if idx <= n.prev {
				continue // covered by its snapshot
			}
			e, ok := n.log[idx]
			if !ok || e.term != ci.term || e.hash != ci.hash {
				a.find("C02", "new-leader-lacks-committed-entry", "", r.Q, "%s becomes leader of term %d; committed entry (%d,t%d) (first seen committed at seq %d) is %v in its log (prev %d last %d)", n.key, st.Term, idx, ci.term, ci.seq, describe(e, ok), n.prev, n.last)
				break
			}
		}
		a.rep.Stats["leader-completeness-checks"] += int64(len(cm))
		n.rounds = map[uint64]bool{}
		n.roundDone = map[uint64]uint64{}
		n.unreach = nil
		n.leaderSince = r.Q
	}
	if st.State != "C" {
		n.xferPermit = false // the permission ends with the candidacy
	}
	if st.State == "C" {
		// C11: candidate must be voter of its own latest configuration
		if n.latest != nil && !n.latest.IsVoter(n.key.nid) {
			a.find("C11", "non-voter-becomes-candidate", "", r.Q, "%s becomes candidate but is not a voter in its latest configuration %s", n.key, cfgString(n.latest))
		}
	}
	a.onState(n, r, false)
}

func describe(e entryInfo, ok bool) string {
	if !ok {
		return "absent"
	}
	return fmt.Sprintf("(t%d,%x)", e.term, e.hash)
}

func (a *Analyzer) isWire(id uint64) bool { return a.wireIDs[id] || id >= 90 }

func (a *Analyzer) onRPC(n *nodeState, r *ev.Rec) {
	if n == nil || r.St == nil {
		return
	}
	st := r.St
	a.stat("rpcs")
	a.stat("rpc:" + r.RPC + ":" + r.Res)
	cid := n.key.cid
	termBefore, leaderBefore := n.st.Term, n.st.Leader
	hadSt := n.hasSt
	// engine B: the request of the wire-level peer that this is (requests on
	// all its connections are written and handled one after the other)
	var wire *ev.Rec
	if len(a.wireQ) > 0 && r.RPC != "identity" {
		if w := a.wireQ[0]; w.RPC == r.RPC && w.Src == r.Src && w.ReqTerm == r.ReqTerm {
			wire = w
			a.wireQ = a.wireQ[1:]
		} else {
			a.wireQ = nil // out of step (a request was lost or came late)
		}
	}

	// C05: reply terms never go backwards
	a.checkTerm(n, r.RespTerm, r.Q, "reply")

	// C20: identity isolation
	if r.ConnID != 0 {
		ci := a.connID[r.ConnID]
		if r.RPC == "identity" {
			a.stat("handshakes")
			ok := r.Res == "success"
			if ok && (r.A != cid || r.B != n.key.nid) {
				a.find("C20", "handshake-accepts-foreign-identity", "", r.Q, "%s accepted an identity handshake naming cluster %d node %d", n.key, r.A, r.B)
			}
			if !ok && r.A == cid && r.B == n.key.nid {
				a.find("C20", "handshake-rejects-own-identity", "", r.Q, "%s rejected a handshake naming itself", n.key)
			}
			if !ok {
				a.stat("handshakes-rejected")
			}
			a.connID[r.ConnID] = &connInfo{node: n.key, inc: n.inc, ok: ok && r.A == cid && r.B == n.key.nid, named: [2]uint64{r.A, r.B}, dialBy: r.DialBy}
		} else {
			a.stat("requests-on-identified-connections")
			if ci == nil || !ci.ok || ci.node != n.key {
				named := "no handshake"
				if ci != nil {
					named = fmt.Sprintf("handshake named %d/%d ok=%v", ci.named[0], ci.named[1], ci.ok)
				}
				a.find("C20", "request-processed-without-matching-handshake", "", r.Q, "%s processed a %s request from %d on connection %d (%s, dialled by %s)", n.key, r.RPC, r.Src, r.ConnID, named, r.DialBy)
			}
		}
	}

	switch r.RPC {
	case "vote":
		a.stat("vote-requests")
		granted := r.Res == "success"
		if granted {
			a.stat("votes-granted")
			a.recordVote(cid, n.key.nid, r.ReqTerm, r.Src, r.Q, "grant")
			// C05: the grant is recorded (in memory and on disk) before the reply can leave
			if st.Term != r.ReqTerm || st.Vote != r.Src {
				a.find("C05", "grant-without-recording-vote", "grant-without-recording-vote", r.Q, "%s grants its vote to %d for term %d but afterwards holds term %d vote %d", n.key, r.Src, r.ReqTerm, st.Term, st.Vote)
			}
			if r.DiskOK && (r.DiskTerm != r.ReqTerm || r.DiskVote != r.Src) {
				a.find("C05", "grant-not-durable", "grant-not-durable", r.Q, "%s grants its vote to %d for term %d but its term file holds term %d vote %d", n.key, r.Src, r.ReqTerm, r.DiskTerm, r.DiskVote)
			}
			if r.DiskOK {
				a.stat("grants-checked-against-disk")
			}
			// C02: election restriction - the only thing that makes every later
			// leader hold the committed entries: a vote goes only to a candidate
			// whose log is at least as up to date as the voter's
			if r.B < st.LastTerm || (r.B == st.LastTerm && r.A < st.Last) {
				a.find("C02", "vote-for-candidate-with-older-log", "", r.Q, "%s (last entry %d of term %d) grants its vote to %d whose last entry is %d of term %d", n.key, st.Last, st.LastTerm, r.Src, r.A, r.B)
			}
			a.stat("grants-checked-for-log-freshness")
			if st.Term == r.ReqTerm && st.Vote == r.Src {
				n.ackVoteTerm, n.ackVoteFor = r.ReqTerm, r.Src
			}
		} else {
			a.stat("votes-refused:" + r.Res)
		}
		// C17 / C16: the permission to disrupt a live leader exists only for the
		// candidacy that a timeout-now request started
		if r.Xfer && !a.isWire(r.Src) {
			a.stat("vote-requests-with-transfer-flag")
			if ok, known := a.elXfer[[3]uint64{cid, r.Src, r.ReqTerm}]; known && !ok {
				a.find("C17", "transfer-permission-without-timeout-now", "", r.Q, "%s handles a vote request of %d for term %d that claims leadership-transfer permission, but %d was not told to time out now for that candidacy", n.key, r.Src, r.ReqTerm, r.Src)
				a.find("C16", "transfer-permission-without-timeout-now", "", r.Q, "%s handles a vote request of %d for term %d that claims leadership-transfer permission, but %d was not told to time out now for that candidacy", n.key, r.Src, r.ReqTerm, r.Src)
			}
		}
		// C17: leader stability
		if hadSt && !r.Xfer && leaderBefore != 0 && leaderBefore != r.Src {
			a.stat("vote-requests-while-leader-known")
			if granted {
				a.find("C17", "vote-granted-while-leader-known", "", r.Q, "%s (following leader %d) granted its vote to %d for term %d without transfer permission", n.key, leaderBefore, r.Src, r.ReqTerm)
			}
			if st.Term > termBefore {
				a.find("C17", "term-raised-while-leader-known", "", r.Q, "%s (following leader %d) raised its term %d -> %d on a vote request from %d without transfer permission", n.key, leaderBefore, termBefore, st.Term, r.Src)
			}
		}
	case "append", "installSnap", "timeoutNow":
		if (r.RPC == "append" || r.RPC == "installSnap") && r.Res == "success" {
			n.resetWall = r.Wall
		}
		if r.RPC == "timeoutNow" {
			a.stat("timeout-now-requests-by-term:" + map[bool]string{true: "older", false: "current-or-newer"}[r.ReqTerm < termBefore])
			if r.Res == "success" && r.ReqTerm < termBefore && hadSt {
				// C16 / C17: the permission to disrupt belongs to one transfer in
				// one term; a request from a term that is over gives none
				a.find("C16", "timeout-now-of-a-past-term-obeyed", "", r.Q, "%s (term %d) obeys a timeout-now request of term %d from %d: it campaigns with the permission to depose a live leader although that transfer is long over", n.key, termBefore, r.ReqTerm, r.Src)
				a.find("C17", "timeout-now-of-a-past-term-obeyed", "", r.Q, "%s (term %d) obeys a timeout-now request of term %d from %d", n.key, termBefore, r.ReqTerm, r.Src)
			}
		}
		accepted := r.Res != "staleTerm" && r.Res != "readErr" && r.Res != ""
		if accepted && !a.isWire(r.Src) && !a.Universe {
			lk := leaderKey{cid, r.ReqTerm}
			if l, ok := a.leaderOf[lk]; !ok || (l != r.Src && a.alias[l] != r.Src) {
				a.find("C01", "request-accepted-from-non-leader", "", r.Q, "%s accepted %s of term %d from %d, which never became leader of that term (leader: %v)", n.key, r.RPC, r.ReqTerm, r.Src, a.leaderOf[lk])
			}
			a.stat("leader-requests-checked")
		}
		if accepted && (r.RPC == "append" || r.RPC == "installSnap") && !a.isWire(r.Src) {
			a.onLeaderContact(n, r.Src, r.ReqTerm, r.Q)
		}
		if r.RPC == "append" && r.Res == "success" {
			a.stat("append-acks")
			// engine B: an acknowledged request's entries are in the log
			if w := wire; w != nil && w.RPC == "append" && w.Src == r.Src && w.ReqTerm == r.ReqTerm && w.A == r.A {
				for _, we := range w.Log {
					if we.Index <= st.Snap {
						continue
					}
					if le, ok := n.log[we.Index]; !ok || le.term != we.Term || le.hash != we.Hash {
						a.find("C04", "acknowledged-entries-not-in-log", "", r.Q, "%s acknowledged a request of %d (term %d) carrying entry (%d,t%d) but its log holds %s there", n.key, r.Src, r.ReqTerm, we.Index, we.Term, describe(le, ok))
						break
					}
				}
				a.stat("acknowledged-requests-compared-with-log")
			}
			// (an acknowledgement of entries that are not flushed is judged where it
			// matters: at the leader's commit advance (C06 checkDurability) and at
			// the restart after a crash (C10 acknowledged-entry-lost))
			if r.RespLast > n.frontier && r.RespLast > st.Snap {
				a.stat("acks-beyond-durable-frontier")
			}
			if r.RespLast > n.needLast {
				n.needLast = r.RespLast
			}
		}
		if r.RPC == "installSnap" {
			a.stat("snapshot-installs:" + r.Res)
			n.snapTouched = true
			a.shape(fmt.Sprintf("inst:%d", n.key.nid))
			if r.Res == "success" && hadSt && st.Prev == st.Last && st.Snap == r.A && r.Cfg != nil {
				// the log was discarded: the membership is the label's (C12)
				a.stat("installs-with-log-discarded")
				if st.CfgL != r.Cfg.Index {
					a.find("C12", "membership-after-install-not-label", "", r.Q, "%s installed snapshot %d labelled %s and discarded its log, but its latest configuration has index %d", n.key, r.A, cfgString(r.Cfg), st.CfgL)
				}
			}
			if r.Res == "success" {
				// C19/C02: an install never moves the snapshot backwards
				if hadSt && st.Snap < n.st.Snap {
					a.find("C19", "snapshot-regress", "snapshot-regress-on-install", r.Q, "%s: snapshot index %d -> %d after installing a snapshot", n.key, n.st.Snap, st.Snap)
				}
			}
		}
		if r.RPC == "timeoutNow" {
			a.stat("timeout-now:" + r.Res)
			voter := n.latest != nil && n.latest.IsVoter(n.key.nid)
			if r.Res == "success" {
				n.xferPermit = true
			}
			if !voter && r.Res == "success" {
				a.find("C11", "timeout-now-accepted-by-non-voter", "", r.Q, "%s accepted timeout-now although it is not a voter in %s", n.key, cfgString(n.latest))
			}
			if !a.isWire(r.Src) && r.Res == "success" {
				// C16: sent only to a caught-up voter of the sender's configuration
				a.stat("timeout-now-delivered")
			}
		}
	}
	a.onState(n, r, false)
}

func (a *Analyzer) onXferTarget(n *nodeState, r *ev.Rec) {
	if n == nil || r.St == nil {
		return
	}
	a.stat("transfer-targets-chosen")
	a.shape(fmt.Sprintf("xt:%d>%d", n.key.nid, r.ID))
	if r.Cfg == nil || !r.Cfg.IsVoter(r.ID) {
		a.find("C16", "transfer-target-not-voter", "", r.Q, "leader %s designates %d as successor, not a voter in %s", n.key, r.ID, cfgString(r.Cfg))
	}
	t := a.nodes[nodeKey{n.key.cid, r.ID}]
	if t == nil {
		return
	}
	// the target's log holds everything the leader accepted
	if r.St.Last > 0 {
		e, ok := t.log[r.St.Last]
		covered := r.St.Last <= t.prev && t.st.Snap >= r.St.Last
		if !covered && (!ok || e.term != r.St.LastTerm) {
			a.find("C16", "transfer-target-lacks-entries", "", r.Q, "leader %s (last %d,t%d) designates %d as successor whose log has %s at that index (last %d)", n.key, r.St.Last, r.St.LastTerm, r.ID, describe(e, ok), t.last)
		}
	}
	a.sample("transfer", fmt.Sprintf("leader %s -> target %d at last=(%d,t%d) match=%d", n.key, r.ID, r.St.Last, r.St.LastTerm, r.Match))
	a.onState(n, r, false)
}

func (a *Analyzer) onAdminRet(n *nodeState, r *ev.Rec) {
	if n == nil {
		return
	}
	a.stat("admin:" + r.Op + ":" + r.Kind)
	if r.Op == "transfer" {
		x := a.xfers[r.OpID]
		if x == nil {
			return
		}
		if r.Kind == "ok" {
			a.stat("transfers-succeeded")
			// the old leader has stepped down in favour of a higher term
			if n.inc == x.inc && (n.st.State == "L" || n.st.Term <= x.term) {
				a.find("C16", "transfer-success-without-higher-term", "", r.Q, "transfer on %s returned success but the node is in state %s term %d (term at request %d)", n.key, n.st.State, n.st.Term, x.term)
			}
		} else {
			a.stat("transfers-failed")
		}
	}
	if r.Op == "snapshot" && r.Kind == "ok" {
		a.stat("snapshots-taken")
	}
}

func (a *Analyzer) onCfgCommitted(n *nodeState, r *ev.Rec) {
	if n == nil || r.St == nil {
		return
	}
	a.stat("config-commits")
	if r.St.State == "L" && r.Cfg != nil && !r.Cfg.IsVoter(n.key.nid) {
		n.pendingDemote = r.Q
		a.stat("leader-self-demotions-committed")
	}
	a.onState(n, r, false)
}

func (a *Analyzer) onRound(n *nodeState, r *ev.Rec) {
	if n == nil {
		return
	}
	a.stat("rounds-completed")
	n.rounds[r.ID] = true
	if n.roundDone == nil {
		n.roundDone = map[uint64]uint64{}
		n.unreach = nil
	}
	n.roundDone[r.ID] = r.Round
	// the promoted-to-be node holds the leader's log up to the round's target
	t := a.nodes[nodeKey{n.key.cid, r.ID}]
	if t != nil && r.RLast > 0 {
		le, lok := n.log[r.RLast]
		te, tok := t.log[r.RLast]
		covered := r.RLast <= t.prev
		if lok && !covered && (!tok || te.term != le.term) {
			a.find("C11", "round-completed-without-catching-up", "", r.Q, "leader %s reports round %d of %d complete at index %d, but %d has %s there (last %d)", n.key, r.Round, r.ID, r.RLast, r.ID, describe(te, tok), t.last)
		}
	}
	a.onState(n, r, false)
}

func (a *Analyzer) onCfgAction(n *nodeState, r *ev.Rec) {
	if n == nil {
		return
	}
	a.stat("config-actions:" + r.Act)
	a.shape(fmt.Sprintf("act:%s:%d", r.Act, r.ID))
	if r.Act == "promote" {
		if !n.rounds[r.ID] {
			a.find("C11", "promotion-without-completed-round", "", r.Q, "leader %s promotes %d without a completed catch-up round", n.key, r.ID)
		} else if r.Round > n.roundDone[r.ID] {
			// the leader has begun another round (the previous one was too slow
			// and new entries had arrived) and promotes before that round is over
			a.find("C11", "promotion-before-its-round-completed", "", r.Q, "leader %s promotes %d in round %d (target index %d, the node's match index is %d), but the last round it reported complete for that node is %d", n.key, r.ID, r.Round, r.RLast, r.Match, n.roundDone[r.ID])
		}
		a.stat("promotions-checked-against-rounds")
		a.sample("promotion", fmt.Sprintf("leader %s promotes %d: match=%d round=%d target=%d leader-last=%d", n.key, r.ID, r.Match, r.Round, r.RLast, n.last))
	}
	if r.St != nil && r.St.Xfer {
		a.find("C16", "membership-action-during-transfer", "", r.Q, "leader %s starts %s of %d while a leadership transfer is in progress", n.key, r.Act, r.ID)
	}
	a.onState(n, r, false)
}

func (a *Analyzer) onServing(n *nodeState, r *ev.Rec, on bool) {
	if n == nil {
		return
	}
	if on {
		a.stat("serving-periods")
		if n.serving {
			a.find("C20", "two-instances-serve-one-directory", "", r.Q, "a second instance started serving the storage directory of %s (incarnation %d) while the first is still serving it", n.key, n.inc)
		}
	}
	n.serving = on
}

// onExclusive judges the harness' attempts to use a storage directory that
// is (or is not) being served (C20).
func (a *Analyzer) onExclusive(n *nodeState, r *ev.Rec) {
	if n == nil {
		return
	}
	a.stat("exclusivity-attempts")
	a.stat("exclusive:" + r.Op + ":" + firstWords(r.Err, 5))
	const lock = "raft: lock file exists in storageDir"
	const already = "raft: identity already set"
	switch r.Op {
	case "second-serve-while-serving", "setidentity-same-while-serving", "setidentity-other-while-serving":
		if r.Err != lock {
			a.find("C20", "directory-in-use-not-refused", "in-use:"+r.Op, r.Q, "%s on the directory of %s while it is being served returned %q, want ErrLockExists", r.Op, n.key, r.Err)
		}
	case "new-while-serving":
		if r.Err != lock {
			a.find("C20", "directory-in-use-not-refused", "in-use:"+r.Op, r.Q, "New on the directory of %s while it is being served returned %q, want ErrLockExists (its documented answer): the instance it hands out holds term, vote and log position as they were, and nothing stops its Serve once the other instance is gone", n.key, r.Err)
		}
	case "early-instance-served-after-stop":
		if r.Err == "" {
			a.find("C20", "stale-instance-served", "", r.Q, "an instance created on the directory of %s while another one served it was accepted by Serve after that one had stopped: %s", n.key, r.Note)
		}
	case "setidentity-same-after-stop":
		if r.Err != "" {
			a.find("C20", "setidentity-same-refused", "", r.Q, "SetIdentity with the stored identity on the idle directory of %s returned %q", n.key, r.Err)
		}
	case "setidentity-other-after-stop":
		if r.Err != already {
			a.find("C20", "identity-changed-or-change-not-refused", "", r.Q, "SetIdentity with another identity on the directory of %s returned %q, want ErrIdentityAlreadySet", n.key, r.Err)
		}
	case "identity-after-attempts":
		// Idx / Term carry the (cid, nid) read back
		if r.Idx != n.key.cid || r.Term != n.key.nid {
			a.find("C20", "identity-changed", "", r.Q, "directory of %s now holds identity (%d, %d)", n.key, r.Idx, r.Term)
		}
	}
}

func (a *Analyzer) onServeExit(n *nodeState, r *ev.Rec) {
	if n != nil {
		n.followL, n.followT, n.othersServed = 0, 0, nil
	}
	if n == nil {
		return
	}
	a.stat("serve-exits")
	switch r.Err {
	case "raft: server closed":
	case "raft: node removed":
		a.stat("serve-exits-node-removed")
	case "raft: lock file exists in storageDir":
		a.stat("serve-exits-lock-exists")
	default:
		a.find("C15", "serve-returned-error", "serve-returned-error:"+firstWords(r.Err, 4), r.Q, "Serve of %s returned %q", n.key, r.Err)
		if strings.Contains(r.Err, "snapshots.open") {
			// C09: the snapshot a follower needs (the log before it is gone)
			// cannot be opened: the node cannot bring that follower up to date
			a.find("C09", "snapshot-for-a-follower-cannot-be-opened", "", r.Q, "Serve of %s returned %q: the snapshot it regards as its current one is not on disk, and a follower needs it", n.key, r.Err)
		}
	}
}

func (a *Analyzer) onShuttingDown(n *nodeState, r *ev.Rec) {
	if n != nil {
		n.followL, n.followT, n.othersServed = 0, 0, nil
	}
	if n == nil {
		return
	}
	if r.Reason == "raft: node removed" {
		a.stat("self-shutdowns-on-removal")
		// C17: a node learns of one removal once. A node that is started
		// again (because it is being added again) and shuts itself down for
		// the removal it had already obeyed is in a restart loop: it is not
		// brought up to date however long the cluster stays healthy
		if n.hasSt && n.latest != nil {
			if n.removedFor == nil {
				n.removedFor = map[uint64]int{}
			}
			if inc, seen := n.removedFor[n.latest.Index]; seen && inc != n.inc {
				a.find("C17", "shuts-down-again-for-a-removal-already-obeyed", "", r.Q, "%s (incarnation %d) shuts itself down as removed by configuration %s, for which incarnation %d had already shut down", n.key, n.inc, cfgString(n.latest), inc)
			} else if !seen {
				n.removedFor[n.latest.Index] = n.inc
			}
		}
		// C11: only after a configuration without the node is committed
		// its removal is committed: two consecutive committed configurations, the
		// first with the node, the second without it
		var idxs []uint64
		unknown := false
		cm := a.committed[n.key.cid]
		for i, ci := range cm {
			if ci.typ == ev.TypConfig {
				if ci.cfg == nil || ci.cfg.Nodes == nil {
					unknown = true
				}
				idxs = append(idxs, i)
			}
		}
		sort.Slice(idxs, func(i, j int) bool { return idxs[i] < idxs[j] })
		removed := false
		for k := 1; k < len(idxs); k++ {
			p, c := cm[idxs[k-1]].cfg, cm[idxs[k]].cfg
			if p != nil && c != nil && p.Has(n.key.nid) && !c.Has(n.key.nid) {
				removed = true
			}
		}
		if !removed && !unknown {
			a.find("C11", "node-shuts-down-as-removed-without-committed-removal", "", r.Q, "%s shuts down as removed, but none of the %d committed configurations removes it", n.key, len(idxs))
		}
	}
}

func (a *Analyzer) onInfo(n *nodeState, r *ev.Rec) {
	if n == nil || r.Info == nil {
		return
	}
	a.stat("status-reports")
	i := r.Info
	if i.Applied > i.Commit {
		a.find("C19", "applied-beyond-commit", "", r.Q, "%s reports last applied %d > committed %d", n.key, i.Applied, i.Commit)
	}
	if i.Commit > i.Last {
		a.find("C19", "commit-beyond-last", "", r.Q, "%s reports committed %d > last log index %d", n.key, i.Commit, i.Last)
	}
	if i.First > 0 && i.First-1 > i.Snap {
		a.find("C19", "first-beyond-snapshot", "", r.Q, "%s reports first log index %d, snapshot index %d", n.key, i.First, i.Snap)
	}
	if i.Snap > i.Last {
		a.find("C19", "snapshot-beyond-last", "", r.Q, "%s reports snapshot index %d > last log index %d", n.key, i.Snap, i.Last)
	}
	if i.CfgC != nil && i.CfgL != nil && i.CfgC.Index > i.CfgL.Index {
		a.find("C19", "committed-config-beyond-latest", "", r.Q, "%s reports committed config %d > latest %d", n.key, i.CfgC.Index, i.CfgL.Index)
	}
	if p := n.lastInfo; p != nil {
		if i.Term < p.Term {
			a.find("C19", "term-regress", "", r.Q, "%s reports term %d after %d", n.key, i.Term, p.Term)
		}
		if i.Commit < p.Commit {
			a.find("C19", "commit-regress", "", r.Q, "%s reports committed %d after %d", n.key, i.Commit, p.Commit)
		}
		if i.Applied < p.Applied {
			a.find("C19", "applied-regress", "", r.Q, "%s reports last applied %d after %d", n.key, i.Applied, p.Applied)
		}
		if i.Snap < p.Snap {
			a.find("C19", "snapshot-regress", "", r.Q, "%s reports snapshot index %d after %d", n.key, i.Snap, p.Snap)
		}
		a.stat("status-report-pairs")
	}
	n.lastInfo = i
}
