package oracle

import (
	"fmt"
	"time"

	"github.com/anishathalye/porcupine"
)

// Second opinion for C07: the recorded client history of one cluster is
// checked for linearizability against a small sequential model with
// porcupine. With unique ids the direct checks in finishClients are already
// complete; this is an independent implementation of the same question.

type pcIn struct {
	update bool
	id     string
}

type pcOut struct {
	pos  int64  // update: position reported
	n    int64  // read: length
	last string // read: last id
}

type pcState struct {
	n    int64
	last string
}

// PorcupineTimeout bounds one check; a timeout is inconclusive.
var PorcupineTimeout = 5 * time.Second

func porcupineModel() porcupine.Model {
	return porcupine.Model{
		Init: func() interface{} { return pcState{} },
		Step: func(state, input, output interface{}) (bool, interface{}) {
			st, in, out := state.(pcState), input.(pcIn), output.(pcOut)
			if in.update {
				if out.pos != st.n+1 {
					return false, st
				}
				return true, pcState{st.n + 1, in.id}
			}
			return out.n == st.n && (st.n == 0 || out.last == st.last), st
		},
		Equal: func(a, b interface{}) bool { return a.(pcState) == b.(pcState) },
		DescribeOperation: func(input, output interface{}) string {
			in, out := input.(pcIn), output.(pcOut)
			if in.update {
				return fmt.Sprintf("update(%s) -> %d", in.id, out.pos)
			}
			return fmt.Sprintf("read -> (%d, %s)", out.n, out.last)
		},
	}
}

// porcupineCheck returns "ok", "illegal" or "unknown".
func porcupineCheck(ops []porcupine.Operation) string {
	res := porcupine.CheckOperationsTimeout(porcupineModel(), ops, PorcupineTimeout)
	switch res {
	case porcupine.Ok:
		return "ok"
	case porcupine.Illegal:
		return "illegal"
	}
	return "unknown"
}
