package oracle

import (
	"fmt"
	"sort"

	"github.com/anishathalye/porcupine"

	"verif/ev"
)

// commitment and durability (C02, C06), state machine (C03, C09, C12), clients (C07) ----

func (a *Analyzer) onCommit(n *nodeState, r *ev.Rec) {
	if n == nil || r.St == nil {
		return
	}
	st := r.St
	a.stat("commit-advances")
	cid := n.key.cid
	cm := a.committed[cid]
	if cm == nil {
		cm = map[uint64]*committedInfo{}
		a.committed[cid] = cm
	}
	old := n.commit
	if r.Idx < old {
		// legal only when a snapshot installation reset the log (commit := snapshot index)
		if !(st.State != "L" && r.Idx == st.Snap) {
			a.find("C19", "commit-regress", "commit-regress-at-commit", r.Q, "%s: commit index %d -> %d", n.key, old, r.Idx)
		} else if r.Idx < old {
			a.find("C19", "commit-regress", "commit-regress-on-install", r.Q, "%s: commit index %d -> %d on snapshot installation", n.key, old, r.Idx)
		}
	}
	isLeader := st.State == "L"
	if isLeader {
		a.stat("leader-commit-advances")
		// (d) a leader commits by counting replicas only entries of its own term
		if e, ok := n.log[r.Idx]; ok && e.term != st.Term {
			a.find("C02", "leader-commits-entry-of-older-term", "", r.Q, "leader %s of term %d advances its commit index to %d, an entry of term %d", n.key, st.Term, r.Idx, e.term)
		}
		if r.Idx > a.maxLdrCommit[cid] {
			a.maxLdrCommit[cid] = r.Idx
		}
		a.checkDurability(n, r)
	}
	from := old + 1
	if from <= n.prev {
		from = n.prev + 1
	}
	for idx := from; idx <= r.Idx; idx++ {
		e, ok := n.log[idx]
		if !ok {
			if idx <= n.last {
				continue
			}
			a.find("C19", "commit-beyond-last", "commit-beyond-last-at-commit", r.Q, "%s commits %d but its log ends at %d", n.key, r.Idx, n.last)
			break
		}
		ci := cm[idx]
		if ci == nil {
			if !isLeader && !a.Universe && st.State != "" {
				// (e) followers learn commitment from a leader; the leader's own
				// observation precedes anything it sends
				a.find("C02", "follower-commits-entry-no-leader-committed", "", r.Q, "%s (state %s) commits entry (%d,t%d) which no leader had committed before", n.key, st.State, idx, e.term)
			}
			ci = &committedInfo{entryInfo: e, seq: r.Q, obsTerm: st.Term, byLeader: isLeader}
			if e.typ == ev.TypConfig {
				ci.cfg = a.cfgPayload[[3]uint64{cid, idx, e.term}]
			}
			cm[idx] = ci
			continue
		}
		if ci.term != e.term || ci.hash != e.hash {
			a.find("C02", "two-different-entries-committed-at-one-index", "", r.Q, "%s commits (%d,t%d,%x) but (%d,t%d,%x) was committed at seq %d", n.key, idx, e.term, e.hash, idx, ci.term, ci.hash, ci.seq)
		}
		if st.Term < ci.obsTerm {
			ci.obsTerm = st.Term
		}
		a.stat("commit-agreements")
	}
	if r.Idx > n.commit || st.State != "L" {
		n.commit = r.Idx
	}
	a.onState(n, r, false)
}

// checkDurability: at the instant a leader advances its commit index to N,
// a majority of the voters of its latest configuration hold (N, term)
// inside their durable frontier (C06).
func (a *Analyzer) checkDurability(n *nodeState, r *ev.Rec) {
	cfg := n.latest
	if cfg == nil || a.isWire(n.key.nid) {
		return
	}
	e, ok := n.log[r.Idx]
	if !ok {
		return
	}
	vs := cfg.Voters()
	holders := 0
	var who []uint64
	for _, v := range vs {
		x := a.nodes[nodeKey{n.key.cid, v}]
		if x == nil {
			continue
		}
		if x.crashed {
			// a crashed incarnation holds what was durable at the crash
			if ce, ok := x.crashLog[r.Idx]; ok && ce.term == e.term && r.Idx <= x.frontier {
				holders++
				who = append(who, v)
			}
			continue
		}
		if xe, ok := x.log[r.Idx]; ok && xe.term == e.term && r.Idx <= x.frontier {
			holders++
			who = append(who, v)
		} else if r.Idx <= x.prev && x.st.Snap >= r.Idx {
			holders++ // covered by its snapshot
			who = append(who, v)
		}
	}
	a.stat("durability-checks")
	a.rep.Stats[fmt.Sprintf("durability-checks-voters=%d", len(vs))]++
	if holders == majority(len(vs)) {
		a.stat("durability-exact-majority")
	}
	if holders < majority(len(vs)) {
		a.find("C06", "commit-without-durable-majority", fmt.Sprintf("commit-without-durable-majority:voters=%d", len(vs)), r.Q,
			"leader %s advances its commit index to %d (term %d) while only %d of the %d voters of %s hold it durably (holders %v)", n.key, r.Idx, e.term, holders, len(vs), cfgString(cfg), who)
		// the same fact seen from the membership properties
		if !cfg.IsVoter(n.key.nid) {
			a.find("C11", "non-voting-leader-counts-itself", "", r.Q, "leader %s is not a voter in %s but advances its commit index to %d with only %d of %d voters holding the entry (holders %v)", n.key, cfgString(cfg), r.Idx, holders, len(vs), who)
		}
		for i := n.commit + 1; i <= r.Idx; i++ {
			if x, ok := n.log[i]; ok && x.typ == ev.TypConfig {
				a.find("C08", "configuration-committed-without-majority", "", r.Q, "leader %s commits configuration entry %d while only %d of the %d voters of %s hold entry %d durably (holders %v)", n.key, i, holders, len(vs), cfgString(cfg), r.Idx, who)
				break
			}
		}
	}
	if !cfg.IsVoter(n.key.nid) {
		a.stat("commits-by-non-voting-leader")
	}
}

// FSM -----------------------------------------------------------------------------

// fsmFind reports a state-machine finding under C03 and, if the node has been
// through snapshot activity (restore, installation, compaction) in this
// incarnation, under C09 as well: those must be transparent.
func (a *Analyzer) fsmFind(n *nodeState, rule, sig string, seq int64, format string, args ...interface{}) {
	a.find("C03", rule, sig, seq, format, args...)
	if n.snapTouched {
		a.find("C09", "state-machine-wrong-after-snapshot-activity", "after-snapshot:"+rule, seq, format, args...)
	}
}

func (a *Analyzer) onFsmUpdate(n *nodeState, r *ev.Rec) {
	if n == nil {
		return
	}
	a.stat("fsm-updates")
	cid := n.key.cid
	if r.Pos != n.fsmLen+1 {
		a.fsmFind(n, "fsm-position-gap", "", r.Q, "%s (inc %d): update applied at position %d after %d", n.key, n.inc, r.Pos, n.fsmLen)
	}
	n.fsmLen = r.Pos
	n.fsmRoll = r.H
	n.lastFsmVal, n.lastFsmPos, n.hasFsmVal = r.Val, r.Pos, true
	g := a.g[cid]
	if g == nil {
		g = []string{""}
		a.gRoll[cid] = []uint64{ev.RollInit}
		a.gPos[cid] = map[string]int64{}
		a.gIndex[cid] = map[int64]uint64{}
	}
	if int(r.Pos) < len(g) {
		if g[r.Pos] != r.Val {
			a.fsmFind(n, "state-machines-diverge", "", r.Q, "%s applies %q at position %d where another state machine applied %q", n.key, r.Val, r.Pos, g[r.Pos])
		}
	} else if int(r.Pos) == len(g) {
		if p, dup := a.gPos[cid][r.Val]; dup {
			a.fsmFind(n, "update-applied-twice", "", r.Q, "%s applies %q at position %d; it was already applied at position %d", n.key, r.Val, r.Pos, p)
			a.find("C07", "update-took-effect-twice", "", r.Q, "%q took effect at positions %d and %d", r.Val, p, r.Pos)
		}
		g = append(g, r.Val)
		a.gRoll[cid] = append(a.gRoll[cid], ev.Roll(a.gRoll[cid][len(a.gRoll[cid])-1], r.Val))
		a.gPos[cid][r.Val] = r.Pos
	} else {
		a.fsmFind(n, "fsm-position-gap", "fsm-ahead-of-global", r.Q, "%s applies position %d while the global sequence has %d", n.key, r.Pos, len(g)-1)
	}
	a.g[cid] = g
}

func (a *Analyzer) onApplied(n *nodeState, r *ev.Rec) {
	if n == nil || r.E == nil {
		return
	}
	a.stat("applied")
	e := r.E
	cid := n.key.cid
	if n.appliedIdx != 0 && e.Index != n.appliedIdx+1 {
		a.fsmFind(n, "applied-index-gap", "", r.Q, "%s (inc %d) applies index %d after %d", n.key, n.inc, e.Index, n.appliedIdx)
	}
	n.appliedIdx = e.Index
	// only committed entries are applied
	ci := a.committed[cid][e.Index]
	if ci == nil {
		if !a.Universe {
			a.fsmFind(n, "applied-entry-not-committed", "", r.Q, "%s applies entry (%d,t%d) which is not committed", n.key, e.Index, e.Term)
			a.find("C07", "uncommitted-update-exposed", "", r.Q, "%s applies entry (%d,t%d) which is not committed (visible to reads)", n.key, e.Index, e.Term)
		}
	} else if ci.term != e.Term || ci.hash != e.Hash {
		a.fsmFind(n, "applied-entry-differs-from-committed", "", r.Q, "%s applies (%d,t%d,%x), committed is (t%d,%x)", n.key, e.Index, e.Term, e.Hash, ci.term, ci.hash)
		if e.Typ == ev.TypUpdate {
			a.find("C07", "uncommitted-update-exposed", "", r.Q, "%s applies update entry (%d,t%d) which is not the committed entry at that index (t%d): reads expose an update that was never committed", n.key, e.Index, e.Term, ci.term)
		}
	}
	if e.Typ == ev.TypUpdate {
		if !n.hasFsmVal || ev.Hash([]byte(n.lastFsmVal)) != e.Hash {
			a.fsmFind(n, "update-not-fed-to-state-machine", "", r.Q, "%s applied update entry %d without feeding its command to the state machine (last fed %q)", n.key, e.Index, n.lastFsmVal)
		} else {
			gi := a.gIndex[cid]
			if old, ok := gi[n.lastFsmPos]; ok && old != e.Index {
				a.fsmFind(n, "position-maps-to-two-indexes", "", r.Q, "position %d is log index %d on %s but %d elsewhere", n.lastFsmPos, e.Index, n.key, old)
			}
			gi[n.lastFsmPos] = e.Index
		}
		n.hasFsmVal = false
	} else if n.hasFsmVal {
		// an update command was fed for a non-update entry
		a.fsmFind(n, "non-update-entry-fed-to-state-machine", "", r.Q, "%s fed %q to the state machine for entry %d of type %d", n.key, n.lastFsmVal, e.Index, e.Typ)
		n.hasFsmVal = false
	}
}

func (a *Analyzer) onFsmRestore(n *nodeState, r *ev.Rec) {
	a.stat("fsm-restores")
	cid := n.key.cid
	roll := a.gRoll[cid]
	if r.Cnt == 0 {
		if r.H != ev.RollInit {
			a.find("C09", "restored-state-not-a-prefix", "", r.Q, "%s restored an empty list with hash %x", n.key, r.H)
		}
		return
	}
	if int(r.Cnt) >= len(roll) {
		a.find("C09", "restored-state-not-a-prefix", "restored-longer-than-global", r.Q, "%s restored %d updates, only %d were ever applied anywhere", n.key, r.Cnt, len(roll)-1)
		return
	}
	if roll[r.Cnt] != r.H {
		a.find("C09", "restored-state-not-a-prefix", "", r.Q, "%s restored %d updates that are not the first %d of the global sequence", n.key, r.Cnt, r.Cnt)
		a.find("C03", "restored-state-not-a-prefix", "", r.Q, "%s restored %d updates that are not the first %d of the global sequence", n.key, r.Cnt, r.Cnt)
	}
}

// updatesUpTo counts the update entries of the committed ledger with index <= idx;
// ok is false if the ledger has holes below idx.
func (a *Analyzer) updatesUpTo(cid, idx uint64) (int64, bool) {
	cm := a.committed[cid]
	var k int64
	for i := uint64(1); i <= idx; i++ {
		ci := cm[i]
		if ci == nil {
			return 0, false
		}
		if ci.typ == ev.TypUpdate {
			k++
		}
	}
	return k, true
}

func (a *Analyzer) onRestored(n *nodeState, r *ev.Rec) {
	if n == nil {
		return
	}
	// the restore hook: index/term of the snapshot the state machine now reflects
	n.appliedIdx = r.Idx
	if k, ok := a.updatesUpTo(n.key.cid, r.Idx); ok {
		a.stat("restores-checked-against-ledger")
		if k != n.fsmLen {
			a.find("C09", "restored-state-does-not-match-index", "", r.Q, "%s restored a snapshot labelled index %d holding %d updates; the committed log has %d updates up to that index", n.key, r.Idx, n.fsmLen, k)
		}
	}
	a.checkLabel(n, r.Idx, r.Term, r.Cfg, r.Q, "restored")
}

// checkLabel: (index, term) of a snapshot label are those of the committed
// entry at that index; the membership is not older than the newest committed
// configuration entry at or below the index (C12).
func (a *Analyzer) checkLabel(n *nodeState, idx, term uint64, cfg *ev.Cfg, seq int64, what string) {
	cid := n.key.cid
	cm := a.committed[cid]
	if ci := cm[idx]; ci != nil {
		a.stat("labels-checked")
		if ci.term != term {
			a.find("C12", "label-term-wrong", "", seq, "%s: snapshot (%s) labelled (%d,t%d) but the committed entry at %d has term %d", n.key, what, idx, term, idx, ci.term)
		}
	} else if !a.Universe && idx > 0 {
		a.find("C09", "snapshot-of-uncommitted-index", "", seq, "%s: snapshot (%s) labelled index %d which is not known committed", n.key, what, idx)
	}
	var newest uint64
	for i, ci := range cm {
		if ci.typ == ev.TypConfig && i <= idx && i > newest {
			newest = i
		}
	}
	if cfg != nil && cfg.Index > idx && !a.Universe {
		// a membership newer than the snapshot index is tolerable only if it is
		// a committed one (an uncommitted entry may be truncated: the label would
		// then name a membership that never existed)
		if ci := cm[cfg.Index]; ci == nil || ci.typ != ev.TypConfig || ci.term != cfg.Term {
			a.find("C12", "label-membership-not-committed", "", seq, "%s: snapshot (%s) at index %d is labelled with membership %s, a configuration entry that is not committed", n.key, what, idx, cfgString(cfg))
		}
	}
	if newest > 0 && cfg != nil {
		a.stat("label-memberships-checked")
		if cfg.Index < newest {
			a.find("C12", "label-membership-older-than-index", "", seq, "%s: snapshot (%s) at index %d is labelled with membership %s but configuration entry %d is committed at or below that index", n.key, what, idx, cfgString(cfg), newest)
		}
	}
}

func (a *Analyzer) onSnapMeta(n *nodeState, r *ev.Rec) {
	if n == nil {
		return
	}
	a.stat("snapshot-files-seen")
	n.snapLabels[r.Idx] = r
	a.checkLabel(n, r.Idx, r.Term, r.Cfg, r.Q, "file")
	a.sample("snapshot", fmt.Sprintf("%s snapshot file index=%d term=%d ids=%d %s", n.key, r.Idx, r.Term, r.Cnt, cfgString(r.Cfg)))
	cid := n.key.cid
	roll := a.gRoll[cid]
	if r.Err != "" {
		a.find("C09", "snapshot-file-unreadable", "", r.Q, "%s: snapshot file %d: %s", n.key, r.Idx, r.Err)
		return
	}
	if r.Cnt > 0 {
		if int(r.Cnt) >= len(roll) || roll[r.Cnt] != r.H {
			a.find("C09", "snapshot-content-not-a-prefix", "", r.Q, "%s: snapshot file at index %d holds %d updates that are not the first %d of the global applied sequence", n.key, r.Idx, r.Cnt, r.Cnt)
		}
	}
	if k, ok := a.updatesUpTo(cid, r.Idx); ok {
		a.stat("snapshot-contents-checked-against-ledger")
		if k != r.Cnt {
			a.find("C09", "snapshot-content-does-not-match-index", "", r.Q, "%s: snapshot file labelled index %d holds %d updates; the committed log has %d updates up to that index", n.key, r.Idx, r.Cnt, k)
		}
	}
}

func (a *Analyzer) onDump(n *nodeState, r *ev.Rec) {
	if n == nil {
		return
	}
	a.stat("log-dumps")
	// the monitor's shadow must equal the real log
	if r.Prev != n.prev {
		a.find("C04", "shadow-log-differs-from-real-log", "dump-prev", r.Q, "%s: real log starts after %d, shadow after %d", n.key, r.Prev, n.prev)
	}
	real := map[uint64]entryInfo{}
	var last uint64 = r.Prev
	for i := range r.Log {
		e := r.Log[i]
		real[e.Index] = entryInfo{e.Term, e.Typ, e.Hash}
		if e.Index > last {
			last = e.Index
		}
		a.sight(n, e.Index, entryInfo{e.Term, e.Typ, e.Hash}, r.Q)
	}
	if last != n.last {
		a.find("C04", "shadow-log-differs-from-real-log", "dump-last", r.Q, "%s: real log ends at %d, shadow at %d", n.key, last, n.last)
	}
	for idx, e := range real {
		if s, ok := n.log[idx]; ok && s != e {
			a.find("C04", "shadow-log-differs-from-real-log", "dump-entry", r.Q, "%s: real entry %d is (t%d,%x), appended was (t%d,%x)", n.key, idx, e.term, e.hash, s.term, s.hash)
			break
		}
	}
	if r.Err != "" {
		a.find("C04", "real-log-unreadable", "", r.Q, "%s: %s", n.key, r.Err)
	}
	// final state machines are prefixes of the global sequence
	roll := a.gRoll[n.key.cid]
	if r.Cnt > 0 && (int(r.Cnt) >= len(roll) || roll[r.Cnt] != r.H) {
		a.find("C03", "final-state-machine-not-a-prefix", "", r.Q, "%s: final state machine holds %d updates that are not the first %d of the global sequence", n.key, r.Cnt, r.Cnt)
	}
	a.onState(n, r, false)
}

func (a *Analyzer) finishFSM() {
	for cid, g := range a.g {
		a.rep.Stats["global-sequence-length"] += int64(len(g) - 1)
		// G equals the update entries of the committed ledger in index order
		gi := a.gIndex[cid]
		var lastIdx uint64
		for p := int64(1); p < int64(len(g)); p++ {
			idx, ok := gi[p]
			if !ok {
				continue
			}
			if idx <= lastIdx {
				a.find("C03", "apply-order-differs-from-log-order", "", 0, "position %d is log index %d, position before it is index %d", p, idx, lastIdx)
				break
			}
			lastIdx = idx
		}
		// every committed update entry between two applied ones was applied
		cm := a.committed[cid]
		var idxs []uint64
		for i, ci := range cm {
			if ci.typ == ev.TypUpdate {
				idxs = append(idxs, i)
			}
		}
		sort.Slice(idxs, func(i, j int) bool { return idxs[i] < idxs[j] })
		applied := map[uint64]bool{}
		for _, idx := range gi {
			applied[idx] = true
		}
		for _, i := range idxs {
			if i < lastIdx && !applied[i] && len(gi) == len(g)-1 {
				a.find("C03", "committed-update-skipped", "", 0, "committed update entry %d was never applied although later entries were", i)
				break
			}
		}
	}
}

// clients (C07) ---------------------------------------------------------------------

func (a *Analyzer) finishClients() {
	type done struct {
		id   string
		pos  int64
		call int64
		ret  int64
		node nodeKey
		inc  int
	}
	var okUpdates []done
	for _, oid := range a.opOrder {
		op := a.ops[oid]
		c := op.rec
		a.stat("client-ops")
		a.stat("client-op:" + c.Op)
		cid := op.node.cid
		if op.ret == nil {
			a.stat("client-ops-open")
			continue
		}
		ret := op.ret
		a.stat("client-ret:" + ret.Kind)
		switch c.Op {
		case "update":
			pos, inG := a.gPos[cid][c.Val]
			switch ret.Kind {
			case "ok":
				if !inG {
					a.find("C07", "successful-update-never-applied", "", ret.Q, "update %q returned success (position %d) but no state machine applied it", c.Val, ret.Pos)
				} else if pos != ret.Pos {
					a.find("C07", "update-result-differs-from-effect", "", ret.Q, "update %q returned position %d but took effect at position %d", c.Val, ret.Pos, pos)
				}
				okUpdates = append(okUpdates, done{c.Val, ret.Pos, op.callSeq, op.retSeq, op.node, op.inc})
			case "notleader":
				if !ret.Lost && inG {
					a.find("C07", "definitively-rejected-update-took-effect", "rejected:notleader", ret.Q, "update %q was rejected with not-leader (not lost) yet took effect at position %d", c.Val, pos)
				}
				if ret.Lost {
					a.stat("client-ret:lost")
				}
			case "inprogress", "notsubmitted":
				if inG {
					a.find("C07", "definitively-rejected-update-took-effect", "rejected:"+ret.Kind, ret.Q, "update %q was rejected (%s %s) yet took effect at position %d", c.Val, ret.Kind, ret.Note, pos)
				}
			}
		}
	}
	// real-time order of successful updates (per cluster): returned before the
	// other was called => earlier position
	byCid := map[uint64][]done{}
	for _, u := range okUpdates {
		byCid[u.node.cid] = append(byCid[u.node.cid], u)
	}
	for _, ups := range byCid {
		byRet := append([]done(nil), ups...)
		sort.Slice(byRet, func(i, j int) bool { return byRet[i].ret < byRet[j].ret })
		byCall := append([]done(nil), ups...)
		sort.Slice(byCall, func(i, j int) bool { return byCall[i].call < byCall[j].call })
		var maxPos int64
		var maxID string
		i := 0
		for _, u := range byCall {
			for i < len(byRet) && byRet[i].ret < u.call {
				if byRet[i].pos > maxPos {
					maxPos, maxID = byRet[i].pos, byRet[i].id
				}
				i++
			}
			if maxPos > u.pos {
				a.find("C07", "real-time-order-violated", "", u.call, "update %q (position %d) completed before %q was submitted, which took position %d", maxID, maxPos, u.id, u.pos)
				break
			}
		}
	}
	a.rep.Stats["real-time-pairs-covered"] = int64(len(okUpdates))
	a.porcupineOpinion()

	// reads and barriers answered by a leader reflect every update that
	// returned through that node before the read was called, and every update
	// the node had appended as leader before the read was called if that
	// update ever took effect
	perNode := map[string][]done{}
	for _, u := range okUpdates {
		k := fmt.Sprintf("%s#%d", u.node, u.inc)
		perNode[k] = append(perNode[k], u)
	}
	for _, oid := range a.opOrder {
		op := a.ops[oid]
		if op.ret == nil || op.ret.Kind != "ok" {
			continue
		}
		c := op.rec
		if c.Op != "read" && c.Op != "dirty" {
			continue
		}
		cid := op.node.cid
		roll := a.gRoll[cid]
		ret := op.ret
		// the returned content is a prefix of the global sequence
		if ret.Cnt > 0 && (int(ret.Cnt) >= len(roll) || roll[ret.Cnt] != ret.H) {
			a.find("C07", "read-returns-state-outside-global-sequence", "", ret.Q, "%s read on %s returned %d updates that are not a prefix of the global sequence", c.Op, op.node, ret.Cnt)
		}
		a.stat("reads-checked")
		// no uncommitted update exposed: every position returned was committed before the return
		if gi := a.gIndex[cid]; gi != nil && ret.Cnt > 0 {
			if idx, ok := gi[ret.Cnt]; ok {
				if ci := a.committed[cid][idx]; ci == nil || ci.seq > ret.Q {
					a.find("C07", "read-exposes-uncommitted-update", "", ret.Q, "%s read on %s returned position %d (log index %d) before that entry was committed", c.Op, op.node, ret.Cnt, idx)
				}
			}
		}
		if c.Op != "read" {
			continue
		}
		k := fmt.Sprintf("%s#%d", op.node, op.inc)
		for _, u := range perNode[k] {
			if u.ret < op.callSeq && u.pos > ret.Cnt {
				a.find("C07", "read-misses-earlier-update", "", ret.Q, "read on %s returned %d updates although update %q (position %d) had completed through the same node before the read was submitted", op.node, ret.Cnt, u.id, u.pos)
				break
			}
		}
		a.stat("leader-reads-checked")
	}
}

// porcupineOpinion builds, per cluster, the history of updates that took
// effect (successful ones with the position they reported; ambiguous ones -
// lost leadership, server closed, never returned - with the position at which
// they are in the global sequence and an open end), and lets porcupine search
// for a linearization.
func (a *Analyzer) porcupineOpinion() {
	const inf = int64(1) << 60
	byCid := map[uint64][]porcupine.Operation{}
	for _, oid := range a.opOrder {
		op := a.ops[oid]
		c := op.rec
		cid := op.node.cid
		switch c.Op {
		case "update":
			pos, inG := a.gPos[cid][c.Val]
			if op.ret != nil && op.ret.Kind == "ok" {
				byCid[cid] = append(byCid[cid], porcupine.Operation{ClientId: c.Cl, Input: pcIn{true, c.Val}, Call: op.callSeq, Output: pcOut{pos: op.ret.Pos}, Return: op.retSeq})
			} else if inG {
				byCid[cid] = append(byCid[cid], porcupine.Operation{ClientId: c.Cl, Input: pcIn{true, c.Val}, Call: op.callSeq, Output: pcOut{pos: pos}, Return: inf})
			}
		}
		// (reads are left out: the property binds a read only to the updates its
		// answering leader accepted - a stale read from a deposed leader is legal
		// and would not be linearizable)
	}
	for cid, ops := range byCid {
		if len(ops) == 0 {
			continue
		}
		// updates applied on behalf of nobody (harness convergence probes use
		// client 99 and are in the history too), so the model sees every position
		switch porcupineCheck(ops) {
		case "ok":
			a.stat("porcupine-ok")
			a.rep.Stats["porcupine-operations"] += int64(len(ops))
		case "illegal":
			a.find("C07", "history-not-linearizable", "", 0, "porcupine finds no linearization of the %d update operations of cluster %d against the append-list model", len(ops), cid)
		default:
			a.stat("porcupine-timeout")
		}
	}
}
