// Package memnet is an in-memory network with TCP-like stream semantics and
// controllable faults per directed link. It never reorders or duplicates
// bytes inside a stream (TCP does not); staleness is produced the way it is
// in reality: a stalled connection whose bytes are released late.
package memnet

import (
	"errors"
	"io"
	"math/rand"
	"net"
	"os"
	"sync"
	"sync/atomic"
	"time"
)

// Net is one network. Endpoints are identified by labels (one per node
// incarnation); listeners are bound to address strings.
type Net struct {
	mu        sync.Mutex
	cond      *sync.Cond
	listeners map[string]*Listener
	conns     map[*Conn]struct{} // client side of every live connection
	links     map[[2]string]*linkState
	dead      map[string]bool // labels cut off for ever (crashed incarnations)
	nextID    int64
	rng       *rand.Rand

	// OnWrite, if set, is called (outside locks) for every Write with the
	// directed link and the number of the write on that link.
	Stats struct {
		Dials, DialsRefused, Writes, Bytes, Broken, Stalled int64
	}
}

type linkState struct {
	cut      bool          // dials fail (after timeout), established connections carry nothing
	muteOut  bool          // outbound blocked: dials from->to fail, what from writes on connections it dialled is held; connections dialled by to work both ways
	stall    bool          // bytes written are held until released
	delay    time.Duration // added latency per write
	frag     int           // if >0 reads return at most 1..frag bytes
	writeSeq int64
	// dropAt: break the connection at this write number of the link (0 = never)
	breakAt int64
	stallAt int64
	// cutAfter: deliver this many more bytes of the link, then the sender's
	// side goes away in the middle of its write (0 = off): the receiver reads
	// the prefix and then end-of-stream, the sender gets a reset
	cutAfter int64
}

// New creates a network.
func New(seed int64) *Net {
	n := &Net{
		listeners: map[string]*Listener{},
		conns:     map[*Conn]struct{}{},
		links:     map[[2]string]*linkState{},
		dead:      map[string]bool{},
		rng:       rand.New(rand.NewSource(seed)),
	}
	n.cond = sync.NewCond(&n.mu)
	return n
}

func (n *Net) link(from, to string) *linkState {
	k := [2]string{from, to}
	l := n.links[k]
	if l == nil {
		l = &linkState{}
		n.links[k] = l
	}
	return l
}

// errors ----------------------------------------------------------------

type netErr struct {
	msg     string
	timeout bool
}

func (e *netErr) Error() string   { return e.msg }
func (e *netErr) Timeout() bool   { return e.timeout }
func (e *netErr) Temporary() bool { return e.timeout }

var (
	errTimeout = &netErr{"memnet: i/o timeout", true}
	errRefused = &netErr{"memnet: connection refused", false}
	errReset   = &netErr{"memnet: connection reset", false}
	errClosed  = &netErr{"memnet: use of closed connection", false}
)

var _ net.Error = errTimeout

// Is makes errTimeout match os.ErrDeadlineExceeded.
func (e *netErr) Is(target error) bool {
	return e.timeout && target == os.ErrDeadlineExceeded
}

// Listener ----------------------------------------------------------------

// Listener implements net.Listener.
type Listener struct {
	n      *Net
	addr   string
	Label  string
	queue  []*Conn
	closed bool
}

type addr string

func (a addr) Network() string { return "mem" }
func (a addr) String() string  { return string(a) }

// Listen binds label's listener to address. An existing binding of the
// address is replaced (the old listener keeps its queue but gets no more
// connections) - this is how an address is handed to another node.
func (n *Net) Listen(address, label string) *Listener {
	n.mu.Lock()
	defer n.mu.Unlock()
	l := &Listener{n: n, addr: address, Label: label}
	n.listeners[address] = l
	return l
}

// Unbind removes the binding of address if it is l.
func (n *Net) Unbind(l *Listener) {
	n.mu.Lock()
	defer n.mu.Unlock()
	if n.listeners[l.addr] == l {
		delete(n.listeners, l.addr)
	}
}

// Rebind binds another address to l as well.
func (n *Net) Rebind(address string, l *Listener) {
	n.mu.Lock()
	defer n.mu.Unlock()
	n.listeners[address] = l
}

// Accept implements net.Listener.
func (l *Listener) Accept() (net.Conn, error) {
	n := l.n
	n.mu.Lock()
	defer n.mu.Unlock()
	for {
		if l.closed {
			return nil, errClosed
		}
		if len(l.queue) > 0 {
			c := l.queue[0]
			l.queue = l.queue[1:]
			return c, nil
		}
		n.cond.Wait()
	}
}

// Close implements net.Listener.
func (l *Listener) Close() error {
	n := l.n
	n.mu.Lock()
	defer n.mu.Unlock()
	l.closed = true
	for a, x := range n.listeners {
		if x == l {
			delete(n.listeners, a)
		}
	}
	for _, c := range l.queue {
		c.breakLocked()
	}
	l.queue = nil
	n.cond.Broadcast()
	return nil
}

// Addr implements net.Listener.
func (l *Listener) Addr() net.Addr { return addr(l.addr) }

// Conn --------------------------------------------------------------------

type chunk struct {
	b       []byte
	readyAt time.Time
	held    bool // written while the link was stalled
}

// Conn is one end of a connection.
type Conn struct {
	n     *Net
	ID    int64  // same on both ends
	Local string // label of this end
	Peer  string // label of the other end
	// Meta is set by the dialer side wrapper (who dialed, for whom).
	Meta   atomic.Value
	Server bool
	peer   *Conn

	in         []chunk // data to be read by this end
	inBytes    int
	closed     bool // this end closed
	peerClosed bool // other end closed (EOF after data)
	halfDead   bool // this end died in the middle of a write
	broken     bool // reset
	rdl, wdl   time.Time
	rtimer     *time.Timer
	wtimer     *time.Timer
}

const sockBuf = 1 << 20

// Dial connects label from to the listener bound to address.
func (n *Net) Dial(from, address string, timeout time.Duration) (net.Conn, error) {
	deadline := time.Now().Add(timeout)
	n.mu.Lock()
	atomic.AddInt64(&n.Stats.Dials, 1)
	if n.dead[from] {
		n.mu.Unlock()
		atomic.AddInt64(&n.Stats.DialsRefused, 1)
		return nil, errRefused
	}
	l := n.listeners[address]
	if l == nil || l.closed || n.dead[l.Label] {
		n.mu.Unlock()
		atomic.AddInt64(&n.Stats.DialsRefused, 1)
		return nil, errRefused
	}
	ls := n.link(from, l.Label)
	back := n.link(l.Label, from)
	if ls.cut || back.cut || ls.muteOut {
		// a partitioned SYN gets no answer: wait out the timeout
		n.mu.Unlock()
		d := time.Until(deadline)
		if d > 0 {
			if d > 50*time.Millisecond {
				d = 50 * time.Millisecond
			}
			time.Sleep(d)
		}
		atomic.AddInt64(&n.Stats.DialsRefused, 1)
		return nil, errTimeout
	}
	n.nextID++
	c := &Conn{n: n, ID: n.nextID, Local: from, Peer: l.Label}
	s := &Conn{n: n, ID: n.nextID, Local: l.Label, Peer: from, Server: true}
	c.peer, s.peer = s, c
	n.conns[c] = struct{}{}
	l.queue = append(l.queue, s)
	n.cond.Broadcast()
	n.mu.Unlock()
	return c, nil
}

func (c *Conn) breakLocked() {
	if !c.broken {
		c.broken = true
		c.peer.broken = true
		delete(c.n.conns, c)
		delete(c.n.conns, c.peer)
		atomic.AddInt64(&c.n.Stats.Broken, 1)
	}
}

// Read implements net.Conn.
func (c *Conn) Read(p []byte) (int, error) {
	n := c.n
	n.mu.Lock()
	defer n.mu.Unlock()
	for {
		if c.closed {
			return 0, errClosed
		}
		if c.broken {
			return 0, errReset
		}
		now := time.Now()
		if len(c.in) > 0 && !c.in[0].held && !c.in[0].readyAt.After(now) {
			max := len(p)
			if ls := n.link(c.Peer, c.Local); ls.frag > 0 {
				k := 1 + n.rng.Intn(ls.frag)
				if k < max {
					max = k
				}
			}
			m := copy(p[:max], c.in[0].b)
			c.in[0].b = c.in[0].b[m:]
			c.inBytes -= m
			if len(c.in[0].b) == 0 {
				c.in = c.in[1:]
			}
			n.cond.Broadcast() // writers waiting for buffer space
			return m, nil
		}
		if len(c.in) == 0 && c.peerClosed {
			return 0, io.EOF
		}
		if !c.rdl.IsZero() && !c.rdl.After(now) {
			return 0, errTimeout
		}
		if len(c.in) > 0 && !c.in[0].held && c.in[0].readyAt.After(now) {
			d := c.in[0].readyAt.Sub(now)
			time.AfterFunc(d, n.broadcast)
		}
		n.cond.Wait()
	}
}

func (n *Net) broadcast() {
	n.mu.Lock()
	n.cond.Broadcast()
	n.mu.Unlock()
}

// Write implements net.Conn.
func (c *Conn) Write(p []byte) (int, error) {
	n := c.n
	n.mu.Lock()
	defer n.mu.Unlock()
	if len(p) == 0 {
		return 0, nil
	}
	for {
		if c.closed {
			return 0, errClosed
		}
		if c.broken || c.halfDead {
			return 0, errReset
		}
		if c.peer.closed {
			// peer closed: like a RST after the FIN
			return 0, errReset
		}
		if c.peer.inBytes < sockBuf {
			break
		}
		if !c.wdl.IsZero() && !c.wdl.After(time.Now()) {
			return 0, errTimeout
		}
		n.cond.Wait()
	}
	ls := n.link(c.Local, c.Peer)
	ls.writeSeq++
	atomic.AddInt64(&n.Stats.Writes, 1)
	atomic.AddInt64(&n.Stats.Bytes, int64(len(p)))
	if ls.breakAt != 0 && ls.writeSeq == ls.breakAt {
		c.breakLocked()
		n.cond.Broadcast()
		return 0, errReset
	}
	if ls.stallAt != 0 && ls.writeSeq == ls.stallAt {
		ls.stall = true
	}
	halfWritten := false
	if ls.cutAfter > 0 {
		if int64(len(p)) >= ls.cutAfter {
			p = p[:ls.cutAfter]
			ls.cutAfter = 0
			halfWritten = true
		} else {
			ls.cutAfter -= int64(len(p))
		}
	}
	if n.dead[c.Local] || n.dead[c.Peer] {
		c.breakLocked()
		n.cond.Broadcast()
		return 0, errReset
	}
	ch := chunk{b: append([]byte(nil), p...)}
	if ls.delay > 0 {
		ch.readyAt = time.Now().Add(ls.delay)
	}
	if ls.stall || ls.cut || (ls.muteOut && !c.Server) {
		ch.held = true
		atomic.AddInt64(&n.Stats.Stalled, 1)
	} else if len(c.peer.in) > 0 && c.peer.in[len(c.peer.in)-1].held {
		// stream order: nothing overtakes held data
		ch.held = true
	}
	c.peer.in = append(c.peer.in, ch)
	c.peer.inBytes += len(p)
	if halfWritten {
		c.halfDead = true
		c.peer.peerClosed = true
		atomic.AddInt64(&n.Stats.Broken, 1)
		n.cond.Broadcast()
		return len(p), errReset
	}
	n.cond.Broadcast()
	return len(p), nil
}

// Close implements net.Conn.
func (c *Conn) Close() error {
	n := c.n
	n.mu.Lock()
	defer n.mu.Unlock()
	if c.closed {
		return nil
	}
	c.closed = true
	c.peer.peerClosed = true
	if c.peer.closed {
		delete(n.conns, c)
		delete(n.conns, c.peer)
	}
	n.cond.Broadcast()
	return nil
}

// LocalAddr implements net.Conn.
func (c *Conn) LocalAddr() net.Addr { return addr(c.Local) }

// RemoteAddr implements net.Conn.
func (c *Conn) RemoteAddr() net.Addr { return addr(c.Peer) }

// SetDeadline implements net.Conn.
func (c *Conn) SetDeadline(t time.Time) error {
	_ = c.SetReadDeadline(t)
	return c.SetWriteDeadline(t)
}

// SetReadDeadline implements net.Conn.
func (c *Conn) SetReadDeadline(t time.Time) error {
	n := c.n
	n.mu.Lock()
	defer n.mu.Unlock()
	if c.closed {
		return errClosed
	}
	c.rdl = t
	if c.rtimer != nil {
		c.rtimer.Stop()
		c.rtimer = nil
	}
	if !t.IsZero() {
		d := time.Until(t)
		if d < 0 {
			d = 0
		}
		c.rtimer = time.AfterFunc(d, n.broadcast)
	}
	n.cond.Broadcast()
	return nil
}

// SetWriteDeadline implements net.Conn.
func (c *Conn) SetWriteDeadline(t time.Time) error {
	n := c.n
	n.mu.Lock()
	defer n.mu.Unlock()
	if c.closed {
		return errClosed
	}
	c.wdl = t
	if c.wtimer != nil {
		c.wtimer.Stop()
		c.wtimer = nil
	}
	if !t.IsZero() {
		d := time.Until(t)
		if d < 0 {
			d = 0
		}
		c.wtimer = time.AfterFunc(d, n.broadcast)
	}
	return nil
}

// fault control -----------------------------------------------------------

// Cut partitions the directed link from -> to: dials time out, data written
// on established connections is held.
func (n *Net) Cut(from, to string, on bool) {
	n.mu.Lock()
	defer n.mu.Unlock()
	n.link(from, to).cut = on
}

// MuteOut blocks what from initiates towards to (an outbound rule of a
// firewall): its dials time out and whatever it writes on connections it
// dialled is held, while connections that to dialled work in both directions.
func (n *Net) MuteOut(from, to string, on bool) {
	n.mu.Lock()
	defer n.mu.Unlock()
	n.link(from, to).muteOut = on
}

// Stall holds (on) or keeps holding the bytes written from -> to.
func (n *Net) Stall(from, to string, on bool) {
	n.mu.Lock()
	defer n.mu.Unlock()
	n.link(from, to).stall = on
}

// Release delivers every held chunk on connections from -> to whose link is
// no longer stalled or cut. With drop, such connections are reset instead
// (TCP gave up).
func (n *Net) Release(from, to string, drop bool) {
	n.mu.Lock()
	defer n.mu.Unlock()
	ls := n.link(from, to)
	if ls.stall || ls.cut || ls.muteOut {
		return
	}
	for c := range n.conns {
		for _, end := range []*Conn{c, c.peer} {
			// end receives data written by end.Peer
			if end.Peer != from || end.Local != to {
				continue
			}
			held := false
			for i := range end.in {
				if end.in[i].held {
					held = true
					end.in[i].held = false
				}
			}
			if held && drop {
				end.breakLocked()
			}
		}
	}
	n.cond.Broadcast()
}

// Delay sets the latency of the directed link.
func (n *Net) Delay(from, to string, d time.Duration) {
	n.mu.Lock()
	defer n.mu.Unlock()
	n.link(from, to).delay = d
}

// Frag makes reads of data sent from -> to return at most 1..k bytes (0 = off).
func (n *Net) Frag(from, to string, k int) {
	n.mu.Lock()
	defer n.mu.Unlock()
	n.link(from, to).frag = k
}

// BreakAt resets the connection carrying the k-th write of the link (0 = off).
func (n *Net) BreakAt(from, to string, k int64) {
	n.mu.Lock()
	defer n.mu.Unlock()
	n.link(from, to).breakAt = k
}

// CutAfter lets k more bytes through on the link and then ends the stream in
// the middle of the write that crosses that count (0 = off).
func (n *Net) CutAfter(from, to string, k int64) {
	n.mu.Lock()
	defer n.mu.Unlock()
	n.link(from, to).cutAfter = k
}

// StallAt starts stalling the link at its k-th write.
func (n *Net) StallAt(from, to string, k int64) {
	n.mu.Lock()
	defer n.mu.Unlock()
	n.link(from, to).stallAt = k
}

// WriteSeq returns the number of writes seen on the link.
func (n *Net) WriteSeq(from, to string) int64 {
	n.mu.Lock()
	defer n.mu.Unlock()
	return n.link(from, to).writeSeq
}

// BreakConns resets all established connections between a and b (both directions).
func (n *Net) BreakConns(a, b string) int {
	n.mu.Lock()
	defer n.mu.Unlock()
	k := 0
	for c := range n.conns {
		if (c.Local == a && c.Peer == b) || (c.Local == b && c.Peer == a) {
			c.breakLocked()
			k++
		}
	}
	n.cond.Broadcast()
	return k
}

// Kill cuts label off for ever: all its connections are reset, its dials
// are refused, nothing reaches it.
func (n *Net) Kill(label string) {
	n.mu.Lock()
	defer n.mu.Unlock()
	n.dead[label] = true
	for c := range n.conns {
		if c.Local == label || c.Peer == label {
			c.breakLocked()
		}
	}
	for a, l := range n.listeners {
		if l.Label == label {
			delete(n.listeners, a)
		}
	}
	n.cond.Broadcast()
}

// HealAll clears cut/stall/delay on every link and releases held data
// (dropping the connections that held data if drop is set).
func (n *Net) HealAll(drop bool) {
	n.mu.Lock()
	var ks [][2]string
	for k, l := range n.links {
		l.cut, l.muteOut, l.stall, l.delay, l.breakAt, l.stallAt, l.cutAfter = false, false, false, 0, 0, 0, 0
		ks = append(ks, k)
	}
	n.mu.Unlock()
	for _, k := range ks {
		n.Release(k[0], k[1], drop)
	}
}

// Labels returns the labels of all links known.
func (n *Net) Labels() []string {
	n.mu.Lock()
	defer n.mu.Unlock()
	seen := map[string]bool{}
	var out []string
	for k := range n.links {
		for _, l := range k {
			if !seen[l] {
				seen[l] = true
				out = append(out, l)
			}
		}
	}
	return out
}

// ErrTimeout is exported for tests of the harness.
var ErrTimeout error = errTimeout

// IsTimeout tells whether err is a timeout.
func IsTimeout(err error) bool {
	var ne net.Error
	return errors.As(err, &ne) && ne.Timeout()
}
