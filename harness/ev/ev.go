// Package ev defines the event record shared by the worker (which writes
// events.jsonl) and the driver (whose oracles read it). It does not import
// the raft module, so the driver builds whatever state /repo is in.
package ev

import (
	"bufio"
	"encoding/json"
	"fmt"
	"io"
	"os"
	"sync"
)

// St mirrors raft.VerifSt.
type St struct {
	Term     uint64 `json:"t"`
	Vote     uint64 `json:"v"`
	State    string `json:"s"`
	Leader   uint64 `json:"l"`
	Commit   uint64 `json:"c"`
	Last     uint64 `json:"li"`
	LastTerm uint64 `json:"lt"`
	Prev     uint64 `json:"p"`
	LogLast  uint64 `json:"ll"`
	Snap     uint64 `json:"si"`
	SnapTerm uint64 `json:"st"`
	CfgL     uint64 `json:"cl"`
	CfgC     uint64 `json:"cc"`
	LdrStart uint64 `json:"ls,omitempty"`
	Xfer     bool   `json:"x,omitempty"`
	SnapBusy bool   `json:"sb,omitempty"`
}

// Entry mirrors raft.VerifEntry.
type Entry struct {
	Index uint64 `json:"i"`
	Term  uint64 `json:"t"`
	Typ   uint8  `json:"y"`
	Hash  uint64 `json:"h"`
	Data  []byte `json:"d,omitempty"`
}

// entry types of the raft package
const (
	TypBarrier   = 1
	TypUpdate    = 2
	TypRead      = 3
	TypDirtyRead = 4
	TypNop       = 5
	TypConfig    = 6
)

// Node mirrors raft.VerifNode.
type Node struct {
	ID     uint64 `json:"id"`
	Addr   string `json:"a,omitempty"`
	Voter  bool   `json:"v,omitempty"`
	Action uint8  `json:"ac,omitempty"`
}

// Cfg mirrors raft.VerifCfg.
type Cfg struct {
	Index uint64 `json:"i"`
	Term  uint64 `json:"t"`
	Nodes []Node `json:"n"`
}

// Voters returns the ids of voters.
func (c *Cfg) Voters() []uint64 {
	var v []uint64
	for _, n := range c.Nodes {
		if n.Voter {
			v = append(v, n.ID)
		}
	}
	return v
}

// IsVoter tells whether id is a voter in c.
func (c *Cfg) IsVoter(id uint64) bool {
	for _, n := range c.Nodes {
		if n.ID == id {
			return n.Voter
		}
	}
	return false
}

// Has tells whether id is a member of c.
func (c *Cfg) Has(id uint64) bool {
	for _, n := range c.Nodes {
		if n.ID == id {
			return true
		}
	}
	return false
}

// Rec is one line of events.jsonl.
type Rec struct {
	Q   int64  `json:"q"`
	K   string `json:"k"`
	Cid uint64 `json:"cid,omitempty"` // cluster id
	Nid uint64 `json:"nid,omitempty"` // node id
	Inc int    `json:"inc,omitempty"` // incarnation of that node (1, 2, ...)

	// fields of raft.VerifEv
	St     *St    `json:"st,omitempty"`
	E      *Entry `json:"e,omitempty"`
	Cfg    *Cfg   `json:"cfg,omitempty"`
	CfgC   *Cfg   `json:"cfgc,omitempty"`
	Idx    uint64 `json:"idx,omitempty"`
	Term   uint64 `json:"term,omitempty"`
	Vote   uint64 `json:"vote,omitempty"`
	ID     uint64 `json:"id,omitempty"`
	Act    string `json:"act,omitempty"`
	Match  uint64 `json:"match,omitempty"`
	Round  uint64 `json:"round,omitempty"`
	RLast  uint64 `json:"rlast,omitempty"`
	Reason string `json:"why,omitempty"`
	On     bool   `json:"on,omitempty"`
	Err    string `json:"err,omitempty"`

	RPC      string `json:"rpc,omitempty"`
	Src      uint64 `json:"src,omitempty"`
	ReqTerm  uint64 `json:"rt,omitempty"`
	Res      string `json:"res,omitempty"`
	RespTerm uint64 `json:"pt,omitempty"`
	A        uint64 `json:"a,omitempty"`
	B        uint64 `json:"b,omitempty"`
	C        uint64 `json:"c,omitempty"`
	NEnt     uint64 `json:"n,omitempty"`
	Xfer     bool   `json:"xf,omitempty"`
	RespLast uint64 `json:"pl,omitempty"`

	// worker-side fields ------------------------------------------
	ConnID   int64  `json:"conn,omitempty"`    // rpc: id of the connection
	DialBy   string `json:"dialby,omitempty"`  // rpc: "cid/nid" of the dialing pool ("wire" for harness peers)
	DialFor  string `json:"dialfor,omitempty"` // rpc: "cid/nid" the dialer intended to reach
	DiskTerm uint64 `json:"dterm,omitempty"`   // rpc vote: term file contents after the handler
	DiskVote uint64 `json:"dvote,omitempty"`
	DiskOK   bool   `json:"dok,omitempty"`

	Log   []Entry `json:"log,omitempty"`  // open / dump: entries
	Prev  uint64  `json:"prev,omitempty"` // open / dump: prev index
	Dir   string  `json:"dir,omitempty"`
	Seg   uint64  `json:"seg,omitempty"` // durable: segment prev index
	Cnt   int64   `json:"cnt,omitempty"` // durable: entries in segment / fsm list length
	Point string  `json:"pt_,omitempty"` // crash / point name
	Occ   int     `json:"occ,omitempty"`

	// client / fsm
	Cl   int    `json:"clt,omitempty"`  // client id
	Op   string `json:"op,omitempty"`   // update read dirty barrier | info snapshot changeconfig transfer waitstable
	OpID int64  `json:"oid,omitempty"`  // unique per operation
	Val  string `json:"val,omitempty"`  // update id
	Pos  int64  `json:"pos,omitempty"`  // position in fsm list
	Last string `json:"last,omitempty"` // read: last id
	H    uint64 `json:"hh,omitempty"`   // rolling hash of an id list
	Kind string `json:"ek,omitempty"`   // error kind
	Lost bool   `json:"lost,omitempty"`
	Tgt  uint64 `json:"tgt,omitempty"`

	Info *Info `json:"info,omitempty"`

	Note string `json:"note,omitempty"`
	Wall int64  `json:"w,omitempty"` // wall clock ms since start; for humans only
}

// Info mirrors the parts of raft.Info that oracles use.
type Info struct {
	Term     uint64 `json:"t"`
	State    string `json:"s"`
	Leader   uint64 `json:"l"`
	Snap     uint64 `json:"si"`
	First    uint64 `json:"fi"`
	Last     uint64 `json:"li"`
	LastTerm uint64 `json:"lt"`
	Commit   uint64 `json:"c"`
	Applied  uint64 `json:"ap"`
	CfgL     *Cfg   `json:"cl,omitempty"`
	CfgC     *Cfg   `json:"cc,omitempty"`
}

// Writer appends records to a file, one write(2) per record, so that the
// log survives the death of the process.
type Writer struct {
	mu  sync.Mutex
	f   *os.File
	seq int64
	// flooded: more than MaxRecords were written. A run like that (a node
	// spinning on something) is judged by its convergence verdict alone; only
	// the records that carry it are written from then on, so that neither the
	// scratch space (memory, on tmpfs) nor the reader is overrun.
	flooded bool
}

// MaxRecords is the number of records after which a Writer keeps only the
// records listed in AfterFlood (about sixty times an average run).
const MaxRecords = 1500000

// AfterFlood tells whether records of kind k are still written (and read)
// after the flood mark.
func AfterFlood(k string) bool {
	switch k {
	case "tick", "faults-stopped", "converged", "converged-late", "not-converged", "end", "harness-error", "event-flood":
		return true
	}
	return false
}

// NewWriter creates path.
func NewWriter(path string) (*Writer, error) {
	f, err := os.OpenFile(path, os.O_CREATE|os.O_WRONLY|os.O_TRUNC|os.O_APPEND, 0644)
	if err != nil {
		return nil, err
	}
	return &Writer{f: f}, nil
}

// Emit assigns the next sequence number and writes the record. fn, if not
// nil, runs under the same lock before the record is written (monitor state
// that must change atomically with the event).
func (w *Writer) Emit(r *Rec, fn func(seq int64)) int64 {
	w.mu.Lock()
	defer w.mu.Unlock()
	w.seq++
	r.Q = w.seq
	if fn != nil {
		fn(w.seq)
	}
	if w.flooded && !AfterFlood(r.K) {
		return w.seq
	}
	if !w.flooded && w.seq > MaxRecords {
		w.flooded = true
		_, _ = w.f.Write([]byte(fmt.Sprintf(`{"q":%d,"k":"event-flood"}`+"\n", w.seq)))
		if !AfterFlood(r.K) {
			return w.seq
		}
	}
	b, err := json.Marshal(r)
	if err != nil {
		b = []byte(fmt.Sprintf(`{"q":%d,"k":"marshal-error","err":%q}`, w.seq, err.Error()))
	}
	b = append(b, '\n')
	_, _ = w.f.Write(b)
	return w.seq
}

// Seq returns the last sequence number assigned.
func (w *Writer) Seq() int64 {
	w.mu.Lock()
	defer w.mu.Unlock()
	return w.seq
}

// Close closes the file.
func (w *Writer) Close() error {
	w.mu.Lock()
	defer w.mu.Unlock()
	return w.f.Close()
}

// Scan calls fn for every complete record of path, in order, without
// holding more than one in memory. A truncated last line is ignored.
func Scan(path string, fn func(*Rec)) (int, error) {
	f, err := os.Open(path)
	if err != nil {
		return 0, err
	}
	defer f.Close()
	n := 0
	br := bufio.NewReaderSize(f, 1<<20)
	for {
		line, err := br.ReadBytes('\n')
		if len(line) > 0 && line[len(line)-1] == '\n' {
			r := &Rec{}
			if e := json.Unmarshal(line, r); e == nil {
				n++
				fn(r)
			}
		}
		if err == io.EOF {
			break
		}
		if err != nil {
			return n, err
		}
	}
	return n, nil
}

// ReadFile reads all complete records of path. A truncated last line
// (process died while writing) is ignored.
func ReadFile(path string) ([]*Rec, error) {
	f, err := os.Open(path)
	if err != nil {
		return nil, err
	}
	defer f.Close()
	var recs []*Rec
	br := bufio.NewReaderSize(f, 1<<20)
	for {
		line, err := br.ReadBytes('\n')
		if len(line) > 0 && line[len(line)-1] == '\n' {
			r := &Rec{}
			if e := json.Unmarshal(line, r); e == nil {
				recs = append(recs, r)
			}
		}
		if err == io.EOF {
			break
		}
		if err != nil {
			return recs, err
		}
	}
	return recs, nil
}

// Hash is fnv64a, the payload hash used by the hooks.
func Hash(b []byte) uint64 {
	h := uint64(14695981039346656037)
	for _, c := range b {
		h ^= uint64(c)
		h *= 1099511628211
	}
	return h
}

// RollInit is the initial value of the rolling list hash.
const RollInit = uint64(14695981039346656037)

// Roll extends a rolling hash of a list of ids by one id.
func Roll(h uint64, id string) uint64 {
	for i := 0; i < len(id); i++ {
		h ^= uint64(id[i])
		h *= 1099511628211
	}
	h ^= '\n'
	h *= 1099511628211
	return h
}
