package main

import (
	"fmt"
	"math/rand"
	"os"
	"path/filepath"
	"runtime/pprof"
	"sort"
	"strings"
	"sync"
	"sync/atomic"
	"time"

	"github.com/santhosh-tekuri/raft"

	"verif/ev"
	"verif/memnet"
)

// Profile parametrises the random nemesis of engine A.
type Profile struct {
	MinNodes, MaxNodes int
	Steps              int
	Clients            int
	Ops                map[string]int // update read dirty barrier
	Faults             map[string]int // weights of nemesis actions
	MaxIDs             int            // node ids available for membership churn
	DelayProb          float64
}

var profiles = map[string]Profile{
	"general": {MinNodes: 3, MaxNodes: 5, Steps: 14, Clients: 4, MaxIDs: 6, DelayProb: 0.05,
		Ops: map[string]int{"update": 6, "read": 2, "dirty": 1, "barrier": 1},
		Faults: map[string]int{"isolate-leader": 4, "isolate-any": 2, "oneway": 2, "split": 2, "stall": 3, "break": 2, "halfwrite": 3,
			"restart": 2, "crash": 3, "transfer": 2, "snapshot": 3, "member": 3, "heal": 2}},
	"election": {MinNodes: 3, MaxNodes: 5, Steps: 18, Clients: 2, MaxIDs: 6, DelayProb: 0.08,
		Ops: map[string]int{"update": 5, "read": 1},
		Faults: map[string]int{"isolate-leader": 6, "isolate-any": 2, "oneway": 4, "split": 3, "stall": 4, "break": 3,
			"restart": 3, "crash-vote": 4, "transfer": 2, "member": 1, "heal": 2, "slow-votes": 6}},
	"load": {MinNodes: 3, MaxNodes: 5, Steps: 10, Clients: 8, MaxIDs: 5, DelayProb: 0.05,
		Ops:    map[string]int{"update": 8, "read": 2, "dirty": 2, "barrier": 1},
		Faults: map[string]int{"isolate-leader": 3, "stall": 2, "break": 2, "halfwrite": 3, "restart": 2, "crash": 2, "transfer": 3, "snapshot": 3, "selfdemote": 1, "heal": 2}},
	"member": {MinNodes: 1, MaxNodes: 4, Steps: 16, Clients: 3, MaxIDs: 6, DelayProb: 0.05,
		Ops:    map[string]int{"update": 6, "read": 1, "barrier": 1},
		Faults: map[string]int{"member": 10, "isolate-leader": 3, "isolate-any": 2, "transfer": 3, "crash": 2, "restart": 1, "stall": 2, "snapshot": 1, "heal": 2, "tnow": 5, "selfdemote": 2, "selfremove": 1, "shrink": 2, "readdr": 2, "member-at-election": 3}},
	"snapshot": {MinNodes: 3, MaxNodes: 4, Steps: 14, Clients: 5, MaxIDs: 5, DelayProb: 0.05,
		Ops:    map[string]int{"update": 10, "read": 1, "dirty": 1},
		Faults: map[string]int{"snapshot": 8, "slow-snapshot": 4, "isolate-any": 4, "stall": 2, "halfwrite": 4, "restart": 3, "crash": 2, "member": 2, "transfer": 1, "heal": 3}},
	"transfer": {MinNodes: 3, MaxNodes: 5, Steps: 16, Clients: 4, MaxIDs: 6, DelayProb: 0.05,
		Ops:    map[string]int{"update": 6, "read": 1, "barrier": 1},
		Faults: map[string]int{"transfer": 10, "stall": 3, "oneway": 2, "isolate-any": 2, "break": 2, "member": 2, "heal": 2}},
	"crashy": {MinNodes: 3, MaxNodes: 4, Steps: 16, Clients: 4, MaxIDs: 5, DelayProb: 0.05,
		Ops:    map[string]int{"update": 8, "read": 1, "dirty": 1},
		Faults: map[string]int{"crash": 12, "crash-vote": 3, "snapshot": 4, "isolate-leader": 2, "stall": 2, "member": 1, "transfer": 1, "restart": 1, "heal": 1}},
	"everything": {MinNodes: 3, MaxNodes: 5, Steps: 16, Clients: 6, MaxIDs: 6, DelayProb: 0.08,
		Ops: map[string]int{"update": 8, "read": 2, "dirty": 1, "barrier": 1},
		Faults: map[string]int{"isolate-leader": 3, "isolate-any": 2, "oneway": 2, "split": 2, "stall": 3, "break": 2, "halfwrite": 3,
			"restart": 3, "crash": 3, "transfer": 3, "snapshot": 5, "member": 4, "selfdemote": 1, "heal": 2}},
}

// engineA holds one run.
type engineA struct {
	cfg   *RunConfig
	rc    *Recorder
	pc    *Points
	net   *memnet.Net
	cl    *Cluster
	rng   *rand.Rand
	prof  Profile
	res   *Result
	ticks int64

	stopClients chan struct{}
	clientWG    sync.WaitGroup
	pauseLoad   int32

	ids      []uint64          // node ids ever used
	refused  map[uint64]string // members the leader refused as faulty followers (seen while waiting for convergence)
	moves    int
	parked   map[uint64]bool
	faultsOn bool
}

func pickWeighted(rng *rand.Rand, w map[string]int) string {
	keys := make([]string, 0, len(w))
	total := 0
	for k, v := range w {
		if v > 0 {
			keys = append(keys, k)
			total += v
		}
	}
	sort.Strings(keys)
	if total == 0 {
		return ""
	}
	x := rng.Intn(total)
	for _, k := range keys {
		x -= w[k]
		if x < 0 {
			return k
		}
	}
	return keys[len(keys)-1]
}

func runEngineA(cfg *RunConfig, rc *Recorder, res *Result) error {
	rng := rand.New(rand.NewSource(cfg.Seed))
	e := &engineA{cfg: cfg, rc: rc, rng: rng, res: res, stopClients: make(chan struct{}), parked: map[uint64]bool{}}
	e.pc = newPoints(rc, cfg.Seed^0x5eed)
	e.net = memnet.New(cfg.Seed ^ 0x9e7)
	rc.install(e.pc)

	hbMs := cfg.paramInt("hb", 40+rng.Intn(80))
	seg := cfg.paramInt("seg", 1024*(1+rng.Intn(4)))
	retain := cfg.paramInt("retain", 1+rng.Intn(2))
	opt := raft.Options{
		HeartbeatTimeout: time.Duration(hbMs) * time.Millisecond,
		PromoteThreshold: time.Duration(hbMs) * time.Millisecond,
		Bandwidth:        256 * 1024,
		LogSegmentSize:   seg,
		SnapshotsRetain:  retain,
		ShutdownOnRemove: true,
	}
	// a separate generator: the choices below must not shift the sequence
	// the scenarios draw from
	orng := rand.New(rand.NewSource(cfg.Seed ^ 0x0b7))
	qw, snapEveryOff := 0, false
	switch x := orng.Intn(100); {
	case x < 55:
	case x < 70:
		qw = 3
	case x < 85:
		qw = 10
	default:
		qw = 60
	}
	if _, directed := scenarios[cfg.Scenario]; directed {
		// directed scenarios count on an isolated leader stepping down
		qw = 0
		orng.Intn(100)
		snapEveryOff = true
	}
	qw = cfg.paramInt("qw", qw)
	snapEvery, snapThr := 0, 0
	if x := orng.Intn(100); x < 25 && !snapEveryOff {
		snapEvery, snapThr = 3+orng.Intn(10), 1+orng.Intn(30)
	}
	snapEvery = cfg.paramInt("snapevery", snapEvery)
	if snapEvery > 0 {
		opt.SnapshotInterval = time.Duration(snapEvery*hbMs) * time.Millisecond
		opt.SnapshotThreshold = uint64(snapThr)
	}
	e.cl = newCluster(1, rc, e.pc, e.net, cfg.Scratch, opt, cfg.Seed^0xc1)
	e.cl.quorumWait = time.Duration(qw*hbMs) * time.Millisecond
	e.pc.onCrash = e.cl.onCrash
	rc.emit(&ev.Rec{K: "params", Note: fmt.Sprintf("hb=%dms seg=%d retain=%d quorumwait=%dhb snapevery=%dhb snapthreshold=%d", hbMs, seg, retain, qw, snapEvery, snapThr)})

	if fn, ok := scenarios[cfg.Scenario]; ok {
		return fn(e)
	}
	prof, ok := profiles[cfg.Scenario]
	if !ok {
		return fmt.Errorf("unknown scenario %q", cfg.Scenario)
	}
	e.prof = prof
	return e.runProfile()
}

func (e *engineA) hb() time.Duration { return e.cl.hb }

func (e *engineA) sleepHB(lo, hi float64) {
	f := lo + e.rng.Float64()*(hi-lo)
	time.Sleep(time.Duration(f * float64(e.hb())))
}

// boot bootstraps n voters (ids 1..n) and waits for a leader.
func (e *engineA) boot(n int) error {
	var ids []uint64
	for i := 1; i <= n; i++ {
		ids = append(ids, uint64(i))
	}
	e.ids = ids
	if err := e.cl.bootstrap(ids); err != nil {
		return fmt.Errorf("bootstrap: %v", err)
	}
	e.cl.startTicker()
	e.tickCounter()
	if l := e.cl.waitLeader(200 * e.hb()); l == nil {
		return fmt.Errorf("no leader after bootstrap")
	}
	return nil
}

func (e *engineA) tickCounter() {
	e.cl.bgWG.Add(1)
	go func() {
		defer e.cl.bgWG.Done()
		tk := time.NewTicker(e.hb() / 4)
		defer tk.Stop()
		for {
			select {
			case <-e.cl.stopBg:
				return
			case <-tk.C:
				atomic.AddInt64(&e.ticks, 1)
			}
		}
	}()
}

func (e *engineA) runProfile() error {
	p := e.prof
	n := p.MinNodes + e.rng.Intn(p.MaxNodes-p.MinNodes+1)
	if v := e.cfg.paramInt("nodes", 0); v > 0 {
		n = v
	}
	e.pc.mu.Lock()
	e.pc.delayProb, e.pc.delayMax = p.DelayProb, 3*time.Millisecond
	e.pc.weights = map[string]float64{"append": 0.2, "seg.appended": 0.1, "rpc.reply": 0.5, "repl.beforeRead": 1, "fsm.beforeApply": 1}
	e.pc.mu.Unlock()
	if err := e.boot(n); err != nil {
		return err
	}
	e.cl.startInfoSampler(e.hb() / 2)
	e.startClients(p.Clients, p.Ops)

	steps := e.cfg.paramInt("steps", p.Steps)
	e.faultsOn = true
	for i := 0; i < steps; i++ {
		e.sleepHB(0.5, 3)
		act := pickWeighted(e.rng, p.Faults)
		e.fault(act)
	}
	return e.finish()
}

// finish: stop faults, heal, recover, converge (bounded progress on the
// tick clock), dump, shut down.
func (e *engineA) finish() error {
	e.faultsOn = false
	e.pc.releaseAll()
	e.pc.mu.Lock()
	for d := range e.pc.crashAt {
		delete(e.pc.crashAt, d)
	}
	e.pc.mu.Unlock()
	e.net.HealAll(e.rng.Intn(2) == 0)
	e.cl.recoverCrashed()
	for _, id := range e.cl.nodeIDs() {
		n := e.cl.node(id)
		// the operator restarts nodes that are down: stopped by a fault that
		// could not restart them, or exited on their own
		if (n.isStopped() || atomic.LoadInt32(&n.exited) != 0) && !n.isCrashed() && !e.parked[id] {
			if _, err := e.cl.start(id, n.dir); err != nil {
				e.rc.emit(&ev.Rec{K: "restart-failed", Cid: e.cl.cid, Nid: id, Err: err.Error()})
			}
		}
	}
	// the load stops as well: what is pending has to settle without anybody
	// pushing (a membership action that only resumes at the next write would
	// otherwise go unnoticed)
	e.stopLoad()
	e.rc.emit(&ev.Rec{K: "faults-stopped"})
	start := atomic.LoadInt64(&e.ticks)
	const bound = 400
	extFactor := int64(e.cfg.paramInt("ext", 4))
	state := "not-converged"
	var why string
	revived := map[uint64]int{}
	for {
		el := atomic.LoadInt64(&e.ticks) - start
		// the operator keeps the members' processes running: a node that exited
		// on its own (e.g. it learnt of a removal that a later configuration
		// has undone) is started again. A node that was removed and added
		// again with its old storage learns of its old removal once per
		// restart (the commit index is not stored), each time one batch of
		// entries further on, until it has passed the entry that adds it.
		for _, id := range e.cl.nodeIDs() {
			n := e.cl.node(id)
			if atomic.LoadInt32(&n.exited) != 0 && !n.isCrashed() && !n.isStopped() && revived[id] < 60 {
				revived[id]++
				if _, err := e.cl.start(id, n.dir); err != nil {
					e.rc.emit(&ev.Rec{K: "restart-failed", Cid: e.cl.cid, Nid: id, Err: err.Error()})
				}
			}
		}
		ok, w := e.converged()
		why = w
		if ok {
			if el <= bound {
				state = "converged"
			} else {
				state = "converged-late"
			}
			break
		}
		if el > extFactor*bound {
			break
		}
		time.Sleep(e.hb() / 2)
	}
	el := atomic.LoadInt64(&e.ticks) - start
	e.rc.emit(&ev.Rec{K: state, Cnt: el, Note: why})
	e.res.Notes["convergence"] = fmt.Sprintf("%s after %d ticks %s", state, el, why)
	if state == "not-converged" {
		// goroutine dump for the witness
		f, err := os.Create(filepath.Join(e.cfg.Out, "goroutines.txt"))
		if err == nil {
			_ = pprof.Lookup("goroutine").WriteTo(f, 2)
			f.Close()
		}
	}
	e.stopLoad()
	for _, n := range e.cl.liveNodes() {
		// quiet now: the status report through the remote client must be the
		// in-process one
		e.cl.remoteInfo(n)
	}
	for _, n := range e.cl.liveNodes() {
		n.dump("final")
	}
	e.cl.shutdownAll()
	e.cl.stopBackground()
	st := &e.net.Stats
	e.res.Counters["dials"] = atomic.LoadInt64(&st.Dials)
	e.res.Counters["net_writes"] = atomic.LoadInt64(&st.Writes)
	e.res.Counters["conns_broken"] = atomic.LoadInt64(&st.Broken)
	e.res.Counters["chunks_stalled"] = atomic.LoadInt64(&st.Stalled)
	return nil
}

// converged checks, through the public API only: one leader with the highest
// term; a fresh update commits through it; every live member's state machine
// equals the leader's; no membership action pending.
func (e *engineA) converged() (bool, string) {
	live := e.cl.liveNodes()
	if len(live) == 0 {
		return false, "no live nodes"
	}
	var ldr *Node
	var ldrInfo raft.Info
	infos := map[uint64]raft.Info{}
	for _, n := range live {
		info, ok := n.info(false)
		if !ok {
			return false, fmt.Sprintf("node %d gives no info", n.nid)
		}
		infos[n.nid] = info
		if info.State == raft.Leader && (ldr == nil || info.Term > ldrInfo.Term) {
			ldr, ldrInfo = n, info
		}
	}
	if ldr == nil {
		// one dead end is known (known_findings.json): a leader stored a
		// configuration in which it no longer votes (it demoted or removed
		// itself), lost its office before that entry reached anybody else,
		// and its vote is needed by the voters of the committed
		// configuration. It does not campaign, and it refuses their
		// requests because its log is longer.
		for _, n := range live {
			x := infos[n.nid]
			if x.Configs.IsCommitted() || x.Configs.Latest.Nodes[n.nid].Voter || !x.Configs.Committed.Nodes[n.nid].Voter {
				continue
			}
			alone := true
			for _, m := range live {
				if m != n && infos[m.nid].LastLogIndex >= x.Configs.Latest.Index {
					alone = false
				}
			}
			reach := 0 // voters of the committed configuration that can win without n
			for id, v := range x.Configs.Committed.Nodes {
				if !v.Voter || id == n.nid {
					continue
				}
				for _, m := range live {
					if m.nid == id {
						reach++
					}
				}
			}
			if alone && reach < voters(&x.Configs.Committed)/2+1 {
				return false, fmt.Sprintf("no leader: uncommitted self-demotion: node %d holds configuration %d in which it no longer votes, nobody else has that entry, and the voters of the committed configuration %d cannot win without its vote", n.nid, x.Configs.Latest.Index, x.Configs.Committed.Index)
			}
		}
		return false, "no leader"
	}
	conf := ldrInfo.Configs.Latest
	// every live member of the leader's configuration follows it (nodes that
	// are not members, e.g. force-removed ones that keep campaigning, are none
	// of the cluster's business)
	for _, n := range live {
		if _, member := conf.Nodes[n.nid]; !member || n == ldr {
			continue
		}
		info := infos[n.nid]
		if f, ok := ldrInfo.Followers[n.nid]; ok && f.Err == raft.ErrFaultyFollower || strings.Contains(ldrInfo.Followers[n.nid].ErrMessage, "faulty follower") {
			if e.refused == nil {
				e.refused = map[uint64]string{}
			}
			e.refused[n.nid] = fmt.Sprintf("faulty follower: leader %d refuses member %d (%s)", ldr.nid, n.nid, ldrInfo.Followers[n.nid].ErrMessage)
		}
		if !conf.Nodes[n.nid].Voter {
			// a non-voter gets no heartbeats while there is nothing to send
			// (the suite pins that: TestChangeConfig_demoteLeader waits for
			// its timer to expire): it forgets who leads after a while, and
			// a node outside the configuration that keeps campaigning can
			// then raise its term. The property asks of a non-voter that it
			// is brought up to date, which is checked below with a fresh
			// update that has to reach it.
			continue
		}
		if info.Term != ldrInfo.Term || info.Leader != ldr.nid {
			// (the refusal shows in the leader's status only between two attempts)
			if why, ok := e.refused[n.nid]; ok {
				return false, why
			}
			return false, fmt.Sprintf("member %d (term %d, leader %d) does not follow leader %d of term %d", n.nid, info.Term, info.Leader, ldr.nid, ldrInfo.Term)
		}
	}
	if !ldrInfo.Configs.IsStable() {
		return false, "config not stable"
	}
	r := e.cl.fsmOp(99, ldr, "update")
	if !r.ok {
		return false, "fresh update failed: " + r.kind
	}
	want := r.pos
	for _, n := range live {
		if _, member := conf.Nodes[n.nid]; !member {
			continue
		}
		rr := e.cl.fsmOp(99, n, "dirty")
		if !rr.ok {
			return false, fmt.Sprintf("dirty read on %d failed", n.nid)
		}
		if rr.readLen < want {
			if why, ok := e.refused[n.nid]; ok {
				return false, why
			}
			return false, fmt.Sprintf("node %d has %d of %d", n.nid, rr.readLen, want)
		}
	}
	return true, fmt.Sprintf("leader=%d term=%d len=%d", ldr.nid, ldrInfo.Term, want)
}

// load ------------------------------------------------------------------------

func (e *engineA) startClients(k int, ops map[string]int) { e.startClientsOn(e.cl, k, ops) }

// startClientsOn starts k client goroutines against cluster cl.
func (e *engineA) startClientsOn(cl *Cluster, k int, ops map[string]int) {
	for i := 1; i <= k; i++ {
		e.clientWG.Add(1)
		rng := rand.New(rand.NewSource(e.cfg.Seed*131 + int64(i)))
		go func(id int, rng *rand.Rand) {
			defer e.clientWG.Done()
			var sticky *Node
			for {
				select {
				case <-e.stopClients:
					return
				default:
				}
				if atomic.LoadInt32(&e.pauseLoad) != 0 {
					time.Sleep(e.hb() / 4)
					continue
				}
				live := cl.liveNodes()
				if len(live) == 0 {
					time.Sleep(e.hb() / 2)
					continue
				}
				// mostly talk to the node that last accepted an op (the leader)
				var n *Node
				if sticky != nil && sticky.alive() && rng.Intn(10) != 0 {
					n = sticky
				} else {
					n = live[rng.Intn(len(live))]
				}
				op := pickWeighted(rng, ops)
				r := cl.fsmOp(id, n, op)
				if r.ok {
					sticky = n
					if op == "update" && rng.Intn(3) == 0 {
						// back to back read on the same node (C07 rule ii)
						cl.fsmOp(id, n, "read")
					}
				} else {
					sticky = nil
					time.Sleep(time.Duration(rng.Int63n(int64(e.hb()/2) + 1)))
				}
				if rng.Intn(4) == 0 {
					time.Sleep(time.Duration(rng.Int63n(int64(e.hb()/4) + 1)))
				}
			}
		}(i, rng)
	}
}

func (e *engineA) stopLoad() {
	select {
	case <-e.stopClients:
	default:
		close(e.stopClients)
	}
	done := make(chan struct{})
	go func() { e.clientWG.Wait(); close(done) }()
	select {
	case <-done:
	case <-time.After(20 * time.Second):
		e.rc.emit(&ev.Rec{K: "clients-stuck"})
	}
}

// nemesis ------------------------------------------------------------------------

func (e *engineA) labelsOf(n *Node) string { return n.label }

func (e *engineA) cutBoth(a, b *Node, on bool) {
	e.net.Cut(a.label, b.label, on)
	e.net.Cut(b.label, a.label, on)
	if !on {
		drop := e.rng.Intn(2) == 0
		e.net.Release(a.label, b.label, drop)
		e.net.Release(b.label, a.label, drop)
	}
}

func (e *engineA) isolate(n *Node, on bool) {
	for _, m := range e.cl.liveNodes() {
		if m != n {
			e.cutBoth(n, m, on)
		}
	}
}

func (e *engineA) randLive() *Node {
	live := e.cl.liveNodes()
	if len(live) == 0 {
		return nil
	}
	return live[e.rng.Intn(len(live))]
}

var crashPoints = []string{"append", "vote.persisted", "vote.before", "rpc.reply", "seg.sync.data", "seg.sync.headerWritten",
	"log.rollover.committed", "log.rollover.created", "removeGTE", "compact", "install.stored", "install.logHandled",
	"snap.renamed", "log.removeLTE.each", "createSegment.written", "createSegment.created", "seg.appended", "clearLog", "log.reset.each"}

func (e *engineA) fault(act string) {
	e.rc.emit(&ev.Rec{K: "fault", Op: act})
	switch act {
	case "heal":
		e.net.HealAll(e.rng.Intn(2) == 0)
		e.cl.recoverCrashed()
	case "isolate-leader", "isolate-any":
		var n *Node
		if act == "isolate-leader" {
			n = e.cl.leader()
		}
		if n == nil {
			n = e.randLive()
		}
		if n == nil {
			return
		}
		e.rc.emit(&ev.Rec{K: "fault-detail", Op: act, Nid: n.nid})
		e.isolate(n, true)
		e.sleepHB(1, 6)
		e.isolate(n, false)
	case "oneway":
		a, b := e.randLive(), e.randLive()
		if a == nil || b == nil || a == b {
			return
		}
		e.net.Cut(a.label, b.label, true)
		e.sleepHB(1, 5)
		e.net.Cut(a.label, b.label, false)
		e.net.Release(a.label, b.label, e.rng.Intn(2) == 0)
	case "split":
		live := e.cl.liveNodes()
		if len(live) < 3 {
			return
		}
		e.rng.Shuffle(len(live), func(i, j int) { live[i], live[j] = live[j], live[i] })
		k := 1 + e.rng.Intn(len(live)-1)
		for _, a := range live[:k] {
			for _, b := range live[k:] {
				e.cutBoth(a, b, true)
			}
		}
		e.sleepHB(2, 6)
		for _, a := range live[:k] {
			for _, b := range live[k:] {
				e.cutBoth(a, b, false)
			}
		}
	case "stall":
		// hold one direction of a link; release late (stale requests / replies
		// arrive on the old connection after the world has moved on)
		a, b := e.randLive(), e.randLive()
		if a == nil || b == nil || a == b {
			return
		}
		e.net.Stall(a.label, b.label, true)
		e.sleepHB(1, 5)
		e.net.Stall(a.label, b.label, false)
		e.net.Release(a.label, b.label, e.rng.Intn(3) == 0)
	case "break":
		a, b := e.randLive(), e.randLive()
		if a == nil || b == nil || a == b {
			return
		}
		e.net.BreakConns(a.label, b.label)
	case "halfwrite":
		// the sender goes away in the middle of a message: the receiver sees a
		// prefix of a request, a response or a snapshot and then end-of-stream
		a, b := e.randLive(), e.randLive()
		if e.rng.Intn(2) == 0 {
			if l := e.cl.leader(); l != nil {
				a = l
			}
		}
		if a == nil || b == nil || a == b {
			return
		}
		k := int64(1 + e.rng.Intn(400))
		if e.rng.Intn(3) == 0 {
			k = int64(1 + e.rng.Intn(20000))
		}
		e.net.CutAfter(a.label, b.label, k)
	case "restart":
		n := e.randLive()
		if n == nil {
			return
		}
		if !n.shutdown(30 * time.Second) {
			return
		}
		e.sleepHB(0.5, 4)
		if _, err := e.cl.start(n.nid, n.dir); err != nil {
			e.rc.emit(&ev.Rec{K: "restart-failed", Cid: e.cl.cid, Nid: n.nid, Err: err.Error()})
		}
	case "crash", "crash-vote":
		n := e.randLive()
		if n == nil {
			return
		}
		pt := crashPoints[e.rng.Intn(len(crashPoints))]
		if act == "crash-vote" {
			pt = []string{"vote.persisted", "vote.before", "rpc.reply"}[e.rng.Intn(3)]
		}
		if e.rng.Intn(5) == 0 {
			pt = "*"
		}
		e.cl.crash(n.nid, pt, 1+e.rng.Intn(3))
		e.sleepHB(1, 5)
		e.pc.cancelCrash(n.dir)
		e.cl.recoverCrashed()
	case "transfer":
		l := e.cl.leader()
		if l == nil {
			return
		}
		var target uint64
		switch e.rng.Intn(6) {
		case 0, 1: // any
		case 2, 3, 4:
			ids := e.cl.nodeIDs()
			target = ids[e.rng.Intn(len(ids))]
		case 5:
			target = 99 // invalid
		}
		timeout := time.Duration(1+e.rng.Intn(6)) * e.hb()
		switch e.rng.Intn(6) {
		case 0:
			timeout = 0 // the library's default
		case 1:
			timeout = time.Duration(20+e.rng.Intn(20)) * e.hb()
		}
		if e.rng.Intn(4) == 0 {
			go e.cl.transferRemote(l, target, timeout)
		} else {
			go e.cl.transfer(l, target, timeout)
		}
		if e.rng.Intn(4) == 0 {
			// a second request while the first is in progress
			ids := e.cl.nodeIDs()
			go e.cl.transfer(l, ids[e.rng.Intn(len(ids))], timeout)
		}
	case "slow-votes":
		// a voter whose disk is slow: its grant leaves long after it was decided
		n := e.randLive()
		if n == nil {
			return
		}
		d := time.Duration((0.3 + e.rng.Float64()) * float64(e.hb()))
		e.pc.setSlow(n.dir, "vote.persisted", d)
		if l := e.cl.leader(); l != nil && e.rng.Intn(2) == 0 {
			e.isolate(l, true)
			e.sleepHB(2, 5)
			e.isolate(l, false)
		} else {
			e.sleepHB(2, 5)
		}
		e.pc.setSlow(n.dir, "vote.persisted", 0)
	case "slow-snapshot":
		// the snapshot file is written, then publication waits while the load goes on
		n := e.cl.leader()
		if n == nil || e.rng.Intn(3) == 0 {
			n = e.randLive()
		}
		if n == nil {
			return
		}
		hit := e.pc.hold(n.dir, "snap.beforePublish")
		go e.cl.takeSnapshot(n, 0)
		select {
		case <-hit:
			e.sleepHB(2, 5)
		case <-time.After(20 * e.hb()):
		}
		e.pc.release(n.dir, "snap.beforePublish")
	case "snapshot":
		n := e.randLive()
		if e.rng.Intn(2) == 0 {
			if l := e.cl.leader(); l != nil {
				n = l
			}
		}
		if n == nil {
			return
		}
		thr := uint64(e.rng.Intn(3))
		if e.rng.Intn(5) == 0 {
			thr = uint64(10 + e.rng.Intn(200))
		}
		if e.rng.Intn(4) == 0 {
			go e.cl.takeSnapshotRemote(n, thr)
		} else {
			go e.cl.takeSnapshot(n, thr)
		}
		if e.rng.Intn(5) == 0 {
			go e.cl.takeSnapshot(n, 0)
		}
	case "member":
		e.memberAction()
		if e.rng.Intn(3) == 0 {
			if l := e.cl.leader(); l != nil {
				go e.cl.waitStable(l, 100*e.hb())
			}
		}
	case "readdr":
		e.moveNode()
	case "member-at-election":
		// a membership request that reaches a leader the moment it is elected,
		// before it can have committed an entry of its own term (links slow)
		live := e.cl.liveNodes()
		if len(live) < 2 {
			return
		}
		for _, a := range live {
			for _, b := range live {
				if a != b {
					e.net.Delay(a.label, b.label, e.hb()/4)
				}
			}
		}
		var armed int32 = 1
		e.rc.setOnNodeEvent(func(dir string, r *ev.Rec) {
			if r.K == "state" && r.St != nil && r.St.State == "L" && atomic.CompareAndSwapInt32(&armed, 1, 0) {
				for _, n := range live {
					if n.dir == dir {
						go e.cl.changeConfig(n, "request at the moment of election", func(conf *raft.Config) error {
							for id, nd := range conf.Nodes {
								if id != n.nid && nd.Action == raft.None {
									if nd.Voter {
										return conf.SetAction(id, raft.Demote)
									}
									return conf.SetAction(id, raft.Promote)
								}
							}
							return fmt.Errorf("skip")
						})
					}
				}
			}
		})
		if l := e.cl.leader(); l != nil {
			e.isolate(l, true)
			e.sleepHB(3, 6)
			e.isolate(l, false)
		} else {
			e.sleepHB(3, 6)
		}
		e.rc.setOnNodeEvent(nil)
		for _, a := range live {
			for _, b := range live {
				if a != b {
					e.net.Delay(a.label, b.label, 0)
				}
			}
		}
	case "selfdemote":
		l := e.cl.leader()
		if l == nil {
			return
		}
		go e.cl.changeConfig(l, "selfdemote", func(conf *raft.Config) error {
			if conf.Nodes[l.nid].Voter && voters(conf) > 1 {
				return conf.SetAction(l.nid, raft.Demote)
			}
			return fmt.Errorf("skip")
		})
	case "selfremove":
		l := e.cl.leader()
		if l == nil {
			return
		}
		go e.cl.changeConfig(l, "selfremove", func(conf *raft.Config) error {
			if voters(conf) > 1 {
				return conf.SetAction(l.nid, raft.Remove)
			}
			return fmt.Errorf("skip")
		})
	case "shrink":
		// drive the cluster towards two voters (where off-by-one majorities show)
		l := e.cl.leader()
		if l == nil {
			return
		}
		go e.cl.changeConfig(l, "shrink", func(conf *raft.Config) error {
			if voters(conf) <= 2 {
				return fmt.Errorf("skip")
			}
			for id, n := range conf.Nodes {
				if n.Voter && id != l.nid && n.Action == raft.None {
					return conf.SetAction(id, raft.Demote)
				}
			}
			return fmt.Errorf("skip")
		})
	case "tnow":
		e.timeoutNowSomewhere()
	}
}

func voters(c *raft.Config) int {
	k := 0
	for _, n := range c.Nodes {
		if n.Voter {
			k++
		}
	}
	return k
}

// memberAction submits a random (mostly legal, sometimes illegal) membership request.
func (e *engineA) memberAction() {
	l := e.cl.leader()
	if l == nil {
		return
	}
	info, ok := l.info(false)
	if !ok {
		return
	}
	conf := info.Configs.Latest
	var desc string
	nact := 1
	if e.rng.Intn(4) == 0 {
		nact = 2 + e.rng.Intn(2)
	}
	for k := 0; k < nact; k++ {
		var members, vs, nvs []uint64
		for id, n := range conf.Nodes {
			members = append(members, id)
			if n.Voter {
				vs = append(vs, id)
			} else {
				nvs = append(nvs, id)
			}
		}
		sort.Slice(members, func(i, j int) bool { return members[i] < members[j] })
		sort.Slice(vs, func(i, j int) bool { return vs[i] < vs[j] })
		sort.Slice(nvs, func(i, j int) bool { return nvs[i] < nvs[j] })
		choice := e.rng.Intn(10)
		switch {
		case choice <= 2 && len(members) < e.prof.MaxIDs: // add a new node
			id := e.newNodeID(&conf)
			if id == 0 {
				continue
			}
			promote := e.rng.Intn(3) != 0
			if err := conf.AddNonvoter(id, e.cl.addrOf(id), promote); err != nil {
				continue
			}
			desc += fmt.Sprintf("add(%d,promote=%v) ", id, promote)
		case choice == 3 && len(nvs) > 0:
			id := nvs[e.rng.Intn(len(nvs))]
			if conf.SetAction(id, raft.Promote) == nil {
				desc += fmt.Sprintf("promote(%d) ", id)
			}
		case choice <= 5 && len(vs) > 1:
			id := vs[e.rng.Intn(len(vs))]
			if conf.SetAction(id, raft.Demote) == nil {
				desc += fmt.Sprintf("demote(%d) ", id)
			}
		case choice <= 7 && len(members) > 1:
			id := members[e.rng.Intn(len(members))]
			if conf.SetAction(id, raft.Remove) == nil {
				desc += fmt.Sprintf("remove(%d) ", id)
			}
		case choice == 8 && len(members) > 1:
			id := members[e.rng.Intn(len(members))]
			if conf.SetAction(id, raft.ForceRemove) == nil {
				desc += fmt.Sprintf("forceremove(%d) ", id)
			}
		case choice == 9 && e.rng.Intn(2) == 0 && len(members) > 0:
			id := members[e.rng.Intn(len(members))]
			if conf.SetData(id, fmt.Sprintf("data-%d", e.rng.Intn(1000))) == nil {
				desc += fmt.Sprintf("setdata(%d) ", id)
			}
		default: // illegal request: flip a voting right directly, or drop a node
			if len(members) == 0 {
				continue
			}
			if e.rng.Intn(6) == 0 {
				// an action that does not exist
				id := members[e.rng.Intn(len(members))]
				n := conf.Nodes[id]
				n.Action = raft.Action(5 + e.rng.Intn(250))
				conf.Nodes[id] = n
				desc += fmt.Sprintf("ILLEGAL-action(%d,%d) ", id, n.Action)
				continue
			}
			if e.rng.Intn(4) == 0 && len(members) < e.prof.MaxIDs {
				// a new node that votes from the start
				if id := e.newNodeID(&conf); id != 0 {
					conf.Nodes[id] = raft.Node{ID: id, Addr: e.cl.addrOf(id), Voter: true}
					desc += fmt.Sprintf("ILLEGAL-add-voter(%d) ", id)
					continue
				}
			}
			id := members[e.rng.Intn(len(members))]
			n := conf.Nodes[id]
			if e.rng.Intn(2) == 0 {
				n.Voter = !n.Voter
				conf.Nodes[id] = n
				desc += fmt.Sprintf("ILLEGAL-flip(%d) ", id)
				if e.rng.Intn(2) == 0 && len(members) > 1 {
					id2 := members[e.rng.Intn(len(members))]
					if id2 != id {
						n2 := conf.Nodes[id2]
						n2.Voter = !n2.Voter
						conf.Nodes[id2] = n2
						desc += fmt.Sprintf("ILLEGAL-flip(%d) ", id2)
					}
				}
			} else {
				delete(conf.Nodes, id)
				desc += fmt.Sprintf("ILLEGAL-drop(%d) ", id)
			}
		}
	}
	if desc == "" {
		return
	}
	go e.cl.submitConfig(l, desc, conf)
	if e.rng.Intn(3) == 0 {
		// a second request right behind the first (same base configuration):
		// it meets the leader while the first change is not committed yet
		conf2 := info.Configs.Latest
		conf2.Nodes = map[uint64]raft.Node{}
		for id, n := range info.Configs.Latest.Nodes {
			conf2.Nodes[id] = n
		}
		var ids []uint64
		for id := range conf2.Nodes {
			ids = append(ids, id)
		}
		sort.Slice(ids, func(i, j int) bool { return ids[i] < ids[j] })
		if len(ids) == 0 {
			return
		}
		id := ids[e.rng.Intn(len(ids))]
		act := []raft.Action{raft.Demote, raft.Remove, raft.Promote}[e.rng.Intn(3)]
		if conf2.SetAction(id, act) == nil {
			go e.cl.submitConfig(l, fmt.Sprintf("back-to-back %v(%d)", act, id), conf2)
		}
	}
}

// moveNode gives a member another address through a configuration change
// and, once that is committed, restarts the node on the new address.
func (e *engineA) moveNode() {
	l := e.cl.leader()
	if l == nil {
		return
	}
	info, ok := l.info(false)
	if !ok {
		return
	}
	var ids []uint64
	for id := range info.Configs.Latest.Nodes {
		if id != l.nid {
			ids = append(ids, id)
		}
	}
	if len(ids) == 0 {
		return
	}
	sort.Slice(ids, func(i, j int) bool { return ids[i] < ids[j] })
	id := ids[e.rng.Intn(len(ids))]
	e.moves++
	address := fmt.Sprintf("c%dn%d.m%d:1", e.cl.cid, id, e.moves)
	e.rc.emit(&ev.Rec{K: "fault-detail", Op: "readdr", Nid: id, Note: address})
	err := e.cl.changeConfig(l, fmt.Sprintf("setaddr(%d,%s)", id, address), func(conf *raft.Config) error {
		return conf.SetAddr(id, address)
	})
	if err != nil {
		return
	}
	e.cl.moveTo(id, address)
	if n := e.cl.node(id); n != nil && n.alive() {
		if n.shutdown(30 * time.Second) {
			if _, err := e.cl.start(id, n.dir); err != nil {
				e.rc.emit(&ev.Rec{K: "restart-failed", Cid: e.cl.cid, Nid: id, Err: err.Error()})
			}
		}
	}
}

// newNodeID starts a fresh node with an unused id and returns the id.
func (e *engineA) newNodeID(conf *raft.Config) uint64 {
	for id := uint64(1); id <= uint64(e.prof.MaxIDs); id++ {
		if _, ok := conf.Nodes[id]; ok {
			continue
		}
		n := e.cl.node(id)
		if n != nil && !n.isStopped() && !n.isCrashed() && atomic.LoadInt32(&n.exited) == 0 {
			// a removed node that is still running (or whose removal it has not
			// learnt): reuse it as it is
			return id
		}
		dir := e.cl.dirOf(id)
		if n != nil {
			// removed earlier and shut down: it comes back with the storage it
			// had. (Never with an empty one under the same id: nodes that were
			// removed before it and still campaign hold configurations in which
			// this id votes - an empty node would grant them its vote although
			// the old one had acknowledged far newer entries. Raft does not
			// cover a voter that forgets, and the library cannot tell.)
			dir = n.dir
		}
		if _, err := e.cl.start(id, dir); err != nil {
			return 0
		}
		known := false
		for _, x := range e.ids {
			if x == id {
				known = true
			}
		}
		if !known {
			e.ids = append(e.ids, id)
		}
		delete(e.parked, id)
		return id
	}
	return 0
}

func (e *engineA) timeoutNowSomewhere() {
	// implemented with the wire-level peer (wire.go)
	n := e.randLive()
	if n == nil {
		return
	}
	e.wireTimeoutNow(n)
}
