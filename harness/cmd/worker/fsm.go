package main

import (
	"bufio"
	"io"
	"strings"
	"sync"

	"github.com/santhosh-tekuri/raft"

	"verif/ev"
)

// RecFSM is the recording state machine: an append-only list of unique
// command ids. Every call is an event.
type RecFSM struct {
	rc  *Recorder
	dir string

	mu   sync.Mutex
	list []string
	roll uint64
}

func newRecFSM(rc *Recorder, dir string) *RecFSM {
	return &RecFSM{rc: rc, dir: dir, roll: ev.RollInit}
}

// ReadResult is what Read returns.
type ReadResult struct {
	Len  int
	Last string
	Roll uint64
}

// Update implements raft.FSM.
func (f *RecFSM) Update(cmd []byte) interface{} {
	f.mu.Lock()
	id := string(cmd)
	f.list = append(f.list, id)
	f.roll = ev.Roll(f.roll, id)
	pos := len(f.list)
	roll := f.roll
	f.mu.Unlock()
	f.rc.emitNode(f.dir, &ev.Rec{K: "fsm-update", Val: id, Pos: int64(pos), H: roll})
	return pos
}

// Read implements raft.FSM.
func (f *RecFSM) Read(cmd interface{}) interface{} {
	f.mu.Lock()
	defer f.mu.Unlock()
	res := ReadResult{Len: len(f.list), Roll: f.roll}
	if len(f.list) > 0 {
		res.Last = f.list[len(f.list)-1]
	}
	return res
}

type fsmState struct {
	list []string
	dir  string
}

func (s *fsmState) Persist(w io.Writer) error {
	// (the snapshot goroutine: the sink exists, nothing is published yet - a
	// place where the harness can hold a snapshot that is being written)
	if raft.VerifPoint != nil {
		raft.VerifPoint(s.dir, "fsm.persist")
	}
	bw := bufio.NewWriter(w)
	for _, id := range s.list {
		if _, err := bw.WriteString(id); err != nil {
			return err
		}
		if err := bw.WriteByte('\n'); err != nil {
			return err
		}
	}
	return bw.Flush()
}

func (s *fsmState) Release() {}

// Snapshot implements raft.FSM.
func (f *RecFSM) Snapshot() (raft.FSMState, error) {
	f.mu.Lock()
	defer f.mu.Unlock()
	cp := make([]string, len(f.list))
	copy(cp, f.list)
	f.rc.emitNode(f.dir, &ev.Rec{K: "fsm-snapshot", Cnt: int64(len(cp)), H: f.roll})
	return &fsmState{list: cp, dir: f.dir}, nil
}

// Restore implements raft.FSM.
func (f *RecFSM) Restore(r io.Reader) error {
	list, roll, err := readIDList(r)
	if err != nil {
		return err
	}
	f.mu.Lock()
	f.list, f.roll = list, roll
	f.mu.Unlock()
	f.rc.emitNode(f.dir, &ev.Rec{K: "fsm-restore", Cnt: int64(len(list)), H: roll})
	return nil
}

func readIDList(r io.Reader) ([]string, uint64, error) {
	var list []string
	roll := ev.RollInit
	br := bufio.NewReader(r)
	for {
		line, err := br.ReadString('\n')
		if strings.HasSuffix(line, "\n") {
			id := strings.TrimSuffix(line, "\n")
			list = append(list, id)
			roll = ev.Roll(roll, id)
		}
		if err == io.EOF {
			return list, roll, nil
		}
		if err != nil {
			return nil, 0, err
		}
	}
}

func (f *RecFSM) snapshotList() ([]string, uint64) {
	f.mu.Lock()
	defer f.mu.Unlock()
	cp := make([]string, len(f.list))
	copy(cp, f.list)
	return cp, f.roll
}
