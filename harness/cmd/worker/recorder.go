package main

import (
	"fmt"
	"os"
	"path/filepath"
	"strconv"
	"strings"
	"sync"
	"sync/atomic"
	"time"

	"github.com/santhosh-tekuri/raft"
	rlog "github.com/santhosh-tekuri/raft/log"
	"github.com/santhosh-tekuri/raft/mmap"

	"verif/ev"
	"verif/memnet"
)

// nodeRef identifies the incarnation that owns a storage directory.
type nodeRef struct {
	cid, nid uint64
	inc      int
	label    string
	dead     bool // events after a simulated crash are dropped
	lastStep raft.VerifSt
	hasStep  bool
}

// Recorder turns hook observations into event records.
type Recorder struct {
	w     *ev.Writer
	start time.Time

	mu    sync.RWMutex
	nodes map[string]*nodeRef // storage dir -> owner

	stepEvery bool // emit every step (engine B) instead of only changes

	// onNodeEvent, if set, sees every node record before it is written
	// (directed scenarios use it to arm a crash at the point that follows)
	onNodeEvent atomic.Pointer[func(dir string, r *ev.Rec)]
}

// setOnNodeEvent installs (or, with nil, removes) the node event callback.
func (rc *Recorder) setOnNodeEvent(fn func(dir string, r *ev.Rec)) {
	if fn == nil {
		rc.onNodeEvent.Store(nil)
		return
	}
	rc.onNodeEvent.Store(&fn)
}

func newRecorder(path string) (*Recorder, error) {
	w, err := ev.NewWriter(path)
	if err != nil {
		return nil, err
	}
	return &Recorder{w: w, start: time.Now(), nodes: map[string]*nodeRef{}}, nil
}

func (rc *Recorder) register(dir string, n *nodeRef) {
	rc.mu.Lock()
	rc.nodes[dir] = n
	rc.mu.Unlock()
}

func (rc *Recorder) lookup(dir string) *nodeRef {
	rc.mu.RLock()
	n := rc.nodes[dir]
	rc.mu.RUnlock()
	return n
}

func (rc *Recorder) markDead(dir string) {
	rc.mu.Lock()
	if n := rc.nodes[dir]; n != nil {
		n.dead = true
	}
	rc.mu.Unlock()
}

func (rc *Recorder) isDead(dir string) bool {
	rc.mu.RLock()
	defer rc.mu.RUnlock()
	n := rc.nodes[dir]
	return n != nil && n.dead
}

// emit writes a record that is not tied to a node.
func (rc *Recorder) emit(r *ev.Rec) int64 {
	r.Wall = time.Since(rc.start).Milliseconds()
	return rc.w.Emit(r, nil)
}

// emitNode writes a record for the node owning dir. Returns 0 if dropped.
func (rc *Recorder) emitNode(dir string, r *ev.Rec) int64 {
	n := rc.lookup(dir)
	if n == nil {
		r.Dir = dir
		return rc.emit(r)
	}
	rc.mu.RLock()
	dead := n.dead
	rc.mu.RUnlock()
	if dead {
		return 0
	}
	r.Cid, r.Nid, r.Inc = n.cid, n.nid, n.inc
	if fn := rc.onNodeEvent.Load(); fn != nil {
		(*fn)(dir, r)
	}
	return rc.emit(r)
}

func cvSt(s *raft.VerifSt) *ev.St {
	if s == nil {
		return nil
	}
	return &ev.St{Term: s.Term, Vote: s.Vote, State: s.State, Leader: s.Leader, Commit: s.Commit,
		Last: s.Last, LastTerm: s.LastTerm, Prev: s.Prev, LogLast: s.LogLast, Snap: s.Snap, SnapTerm: s.SnapTerm,
		CfgL: s.CfgL, CfgC: s.CfgC, LdrStart: s.LdrStart, Xfer: s.Xfer, SnapBusy: s.SnapBusy}
}

func cvEntry(e *raft.VerifEntry) *ev.Entry {
	if e == nil {
		return nil
	}
	return &ev.Entry{Index: e.Index, Term: e.Term, Typ: e.Typ, Hash: e.Hash, Data: e.Data}
}

func cvCfg(c *raft.VerifCfg) *ev.Cfg {
	if c == nil {
		return nil
	}
	out := &ev.Cfg{Index: c.Index, Term: c.Term}
	for _, n := range c.Nodes {
		out.Nodes = append(out.Nodes, ev.Node{ID: n.ID, Addr: n.Addr, Voter: n.Voter, Action: n.Action})
	}
	return out
}

// readTermFile returns the (term, vote) encoded in the name of the .term file of dir.
func readTermFile(dir string) (term, vote uint64, ok bool) {
	m, err := filepath.Glob(filepath.Join(dir, "*.term"))
	if err != nil || len(m) != 1 {
		return 0, 0, false
	}
	s := strings.TrimSuffix(filepath.Base(m[0]), ".term")
	i := strings.IndexByte(s, '-')
	if i < 0 {
		return 0, 0, false
	}
	t, err1 := strconv.ParseUint(s[:i], 10, 64)
	v, err2 := strconv.ParseUint(s[i+1:], 10, 64)
	if err1 != nil || err2 != nil {
		return 0, 0, false
	}
	return t, v, true
}

// onRaftEvent is installed as raft.VerifEmit.
func (rc *Recorder) onRaftEvent(dir string, e *raft.VerifEv) {
	n := rc.lookup(dir)
	if n != nil && e.K == "step" && !rc.stepEvery {
		// only changes
		rc.mu.Lock()
		same := n.hasStep && n.lastStep == *e.St
		n.lastStep, n.hasStep = *e.St, true
		rc.mu.Unlock()
		if same {
			return
		}
	}
	r := &ev.Rec{
		K: e.K, St: cvSt(e.St), E: cvEntry(e.E), Cfg: cvCfg(e.Cfg), CfgC: cvCfg(e.CfgC),
		Idx: e.Idx, Term: e.Term, Vote: e.Vote, ID: e.ID, Act: e.Act, Match: e.Match,
		Round: e.Round, RLast: e.RLast, Reason: e.Reason, On: e.On, Err: e.Err,
		RPC: e.RPC, Src: e.Src, ReqTerm: e.ReqTerm, Res: e.Res, RespTerm: e.RespTerm,
		A: e.A, B: e.B, C: e.C, NEnt: e.N, Xfer: e.Xfer, RespLast: e.RespLast,
	}
	if e.K == "rpc" {
		if mc, ok := e.Conn.(*memnet.Conn); ok {
			r.ConnID = mc.ID
			r.DialBy = mc.Peer
			if m, ok := mc.Meta.Load().(string); ok {
				r.DialFor = m
			}
		}
		if e.RPC == "vote" {
			r.DiskTerm, r.DiskVote, r.DiskOK = readTermFile(dir)
		}
	}
	rc.emitNode(dir, r)
}

// install wires the recorder and the points controller into the hooks.
func (rc *Recorder) install(pc *Points) {
	raft.VerifEmit = rc.onRaftEvent
	raft.VerifPoint = pc.point
	rlog.VerifPoint = func(logDir, name string) { pc.point(filepath.Dir(logDir), name) }
	rlog.VerifDurable = func(logDir string, prev uint64, n int) {
		rc.emitNode(filepath.Dir(logDir), &ev.Rec{K: "durable", Seg: prev, Cnt: int64(n)})
	}
	mmap.VerifQuarantine = true
}

// snapMeta reports the newest snapshot file of the node owning dir: label
// (index, term, membership) and content (number and rolling hash of ids).
func (rc *Recorder) snapMeta(dir string) {
	sdir := filepath.Join(dir, "snapshots")
	metas, _ := filepath.Glob(filepath.Join(sdir, "*.meta"))
	var best uint64
	var bestPath string
	for _, m := range metas {
		v, err := strconv.ParseUint(strings.TrimSuffix(filepath.Base(m), ".meta"), 10, 64)
		if err == nil && v >= best {
			best, bestPath = v, m
		}
	}
	if bestPath == "" {
		return
	}
	f, err := os.Open(bestPath)
	if err != nil {
		return
	}
	idx, term, cfg, size, err := raft.VerifSnapMeta(f)
	f.Close()
	rec := &ev.Rec{K: "snapmeta", Idx: idx, Term: term, Cfg: cvCfg(&cfg)}
	if err != nil {
		rec.Err = "meta: " + err.Error()
		rc.emitNode(dir, rec)
		return
	}
	sf, err := os.Open(filepath.Join(sdir, fmt.Sprintf("%d.snap", idx)))
	if err != nil {
		rec.Err = "snap: " + err.Error()
		rc.emitNode(dir, rec)
		return
	}
	defer sf.Close()
	if st, err := sf.Stat(); err == nil && st.Size() != size {
		rec.Err = fmt.Sprintf("snap file has %d bytes, label says %d", st.Size(), size)
	}
	list, roll, err := readIDList(sf)
	if err != nil {
		rec.Err = "snap read: " + err.Error()
	}
	rec.Cnt, rec.H = int64(len(list)), roll
	rc.emitNode(dir, rec)
}

func fatalf(format string, a ...interface{}) {
	fmt.Fprintf(os.Stderr, "worker: "+format+"\n", a...)
	os.Exit(3)
}
