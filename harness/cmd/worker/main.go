// Command worker runs one seeded execution of the real raft code under
// instrumentation and writes events.jsonl for the oracles of cmd/check.
package main

import (
	"encoding/json"
	"flag"
	"fmt"
	"os"
	"path/filepath"
	"runtime"
	"strings"
	"time"

	"verif/ev"
)

// RunConfig is what the driver passes.
type RunConfig struct {
	Engine   string            `json:"engine"`   // A B C D
	Scenario string            `json:"scenario"` // profile or directed scenario
	Seed     int64             `json:"seed"`
	Out      string            `json:"out"`     // directory for events.jsonl, result.json
	Scratch  string            `json:"scratch"` // storage directories (tmpfs)
	Params   map[string]string `json:"params,omitempty"`
}

// Result is written to result.json when the run completed.
type Result struct {
	Completed bool              `json:"completed"`
	Engine    string            `json:"engine"`
	Scenario  string            `json:"scenario"`
	Seed      int64             `json:"seed"`
	WallMs    int64             `json:"wall_ms"`
	Notes     map[string]string `json:"notes,omitempty"`
	Counters  map[string]int64  `json:"counters,omitempty"`
}

func (c *RunConfig) param(k, def string) string {
	if v, ok := c.Params[k]; ok {
		return v
	}
	return def
}

func (c *RunConfig) paramInt(k string, def int) int {
	if v, ok := c.Params[k]; ok {
		var x int
		if _, err := fmt.Sscanf(v, "%d", &x); err == nil {
			return x
		}
	}
	return def
}

func main() {
	var cfg RunConfig
	var params string
	flag.StringVar(&cfg.Engine, "engine", "A", "engine: A B C D")
	flag.StringVar(&cfg.Scenario, "scenario", "general", "profile or scenario")
	flag.Int64Var(&cfg.Seed, "seed", 1, "seed")
	flag.StringVar(&cfg.Out, "out", "", "output dir")
	flag.StringVar(&cfg.Scratch, "scratch", "", "scratch dir")
	flag.StringVar(&params, "params", "", "k=v,k=v")
	flag.Parse()
	if cfg.Out == "" {
		fatalf("missing -out")
	}
	cfg.Params = map[string]string{}
	for _, kv := range strings.Split(params, ",") {
		if i := strings.IndexByte(kv, '='); i > 0 {
			cfg.Params[kv[:i]] = kv[i+1:]
		}
	}
	if err := os.MkdirAll(cfg.Out, 0755); err != nil {
		fatalf("%v", err)
	}
	if cfg.Scratch == "" {
		cfg.Scratch = filepath.Join(cfg.Out, "scratch")
	}
	if err := os.MkdirAll(cfg.Scratch, 0755); err != nil {
		fatalf("%v", err)
	}
	if p := cfg.paramInt("gomaxprocs", 0); p > 0 {
		runtime.GOMAXPROCS(p)
	}
	if cfg.paramInt("oldtimers", 0) > 0 {
		// timers as a main module with a go directive below 1.23 gets them
		// (buffered channel, a stale expiry may be left in it) - the library's
		// own go.mod says 1.13, its suite runs that way; this harness's
		// module says 1.23. The runtime re-reads the setting for every timer
		// created from here on, and no raft timer exists yet.
		os.Setenv("GODEBUG", "asynctimerchan=1")
	}
	start := time.Now()
	res := &Result{Engine: cfg.Engine, Scenario: cfg.Scenario, Seed: cfg.Seed, Notes: map[string]string{}, Counters: map[string]int64{}}
	rc, err := newRecorder(filepath.Join(cfg.Out, "events.jsonl"))
	if err != nil {
		fatalf("%v", err)
	}
	rc.emit(&ev.Rec{K: "run", Note: fmt.Sprintf("engine=%s scenario=%s seed=%d params=%s", cfg.Engine, cfg.Scenario, cfg.Seed, params)})
	switch cfg.Engine {
	case "A":
		err = runEngineA(&cfg, rc, res)
	default:
		err = runOther(&cfg, rc, res)
	}
	if err != nil {
		rc.emit(&ev.Rec{K: "harness-error", Err: err.Error()})
		res.Notes["error"] = err.Error()
	} else {
		res.Completed = true
		rc.emit(&ev.Rec{K: "end"})
	}
	res.WallMs = time.Since(start).Milliseconds()
	b, _ := json.MarshalIndent(res, "", " ")
	_ = os.WriteFile(filepath.Join(cfg.Out, "result.json"), b, 0644)
	_ = rc.w.Close()
	if cfg.param("keep", "") == "" {
		_ = os.RemoveAll(cfg.Scratch)
	}
	// leaked goroutines of "crashed" incarnations must not keep the process alive
	os.Exit(0)
}
