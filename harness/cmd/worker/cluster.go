package main

import (
	"context"
	"fmt"
	"math/rand"
	"net"
	"os"
	"path/filepath"
	"sort"
	"sync"
	"sync/atomic"
	"time"

	"github.com/santhosh-tekuri/raft"

	"verif/ev"
	"verif/memnet"
)

// Cluster is a set of real raft nodes of one cluster id on a memnet.
type Cluster struct {
	cid     uint64
	rc      *Recorder
	pc      *Points
	net     *memnet.Net
	scratch string
	opt     raft.Options
	addrs   map[uint64]string // addresses of nodes that were moved
	// how long a leader that cannot reach a majority stays in office (the
	// library's own tests set it; 0 = step down at once)
	quorumWait time.Duration
	hb         time.Duration

	mu    sync.Mutex
	nodes map[uint64]*Node // current incarnation per node id
	all   []*Node          // every incarnation ever started
	incs  map[uint64]int

	rngMu sync.Mutex
	rng   *rand.Rand

	opID int64

	taskMu sync.Mutex
	tasks  []*trackedTask

	stopBg chan struct{}
	bgWG   sync.WaitGroup
}

type trackedTask struct {
	t    raft.Task
	n    *Node
	oid  int64
	op   string
	done bool // return recorded
}

// Node is one incarnation of a node.
type Node struct {
	cl    *Cluster
	nid   uint64
	inc   int
	dir   string
	label string
	addr  string

	r        *raft.Raft
	fsm      *RecFSM
	lis      *memnet.Listener
	serveRet chan struct{} // closed when Serve returned
	serveErr error
	gone     chan struct{} // closed when the incarnation crashed or was shut down
	goneOnce sync.Once
	crashedF int32
	stoppedF int32
	exited   int32 // Serve returned
	slow     int32 // a wait on this node was abandoned: later waits are short
}

func newCluster(cid uint64, rc *Recorder, pc *Points, nw *memnet.Net, scratch string, opt raft.Options, seed int64) *Cluster {
	return &Cluster{
		cid: cid, rc: rc, pc: pc, net: nw, scratch: scratch, opt: opt, hb: opt.HeartbeatTimeout,
		nodes: map[uint64]*Node{}, incs: map[uint64]int{},
		rng:    rand.New(rand.NewSource(seed)),
		stopBg: make(chan struct{}),
	}
}

func (c *Cluster) rnd(n int) int {
	c.rngMu.Lock()
	defer c.rngMu.Unlock()
	if n <= 0 {
		return 0
	}
	return c.rng.Intn(n)
}

func (c *Cluster) rndf() float64 {
	c.rngMu.Lock()
	defer c.rngMu.Unlock()
	return c.rng.Float64()
}

func (c *Cluster) addrOf(nid uint64) string {
	c.mu.Lock()
	defer c.mu.Unlock()
	if a, ok := c.addrs[nid]; ok {
		return a
	}
	return fmt.Sprintf("c%dn%d:1", c.cid, nid)
}

// moveTo makes later incarnations of nid listen on address.
func (c *Cluster) moveTo(nid uint64, address string) {
	c.mu.Lock()
	defer c.mu.Unlock()
	if c.addrs == nil {
		c.addrs = map[uint64]string{}
	}
	c.addrs[nid] = address
}

func (c *Cluster) dirOf(nid uint64) string {
	return filepath.Join(c.scratch, fmt.Sprintf("c%dn%d", c.cid, nid))
}

func (c *Cluster) node(nid uint64) *Node {
	c.mu.Lock()
	defer c.mu.Unlock()
	return c.nodes[nid]
}

func (c *Cluster) liveNodes() []*Node {
	c.mu.Lock()
	defer c.mu.Unlock()
	var out []*Node
	for _, n := range c.nodes {
		if !n.isCrashed() && !n.isStopped() && atomic.LoadInt32(&n.exited) == 0 {
			out = append(out, n)
		}
	}
	sort.Slice(out, func(i, j int) bool { return out[i].nid < out[j].nid })
	return out
}

func (n *Node) isCrashed() bool { return atomic.LoadInt32(&n.crashedF) != 0 }
func (n *Node) isStopped() bool { return atomic.LoadInt32(&n.stoppedF) != 0 }

// alive tells whether the incarnation is neither stopped, crashed nor exited.
func (n *Node) alive() bool {
	n.cl.mu.Lock()
	defer n.cl.mu.Unlock()
	return !n.isCrashed() && !n.isStopped() && atomic.LoadInt32(&n.exited) == 0
}

func (c *Cluster) nodeIDs() []uint64 {
	c.mu.Lock()
	defer c.mu.Unlock()
	var out []uint64
	for id := range c.nodes {
		out = append(out, id)
	}
	sort.Slice(out, func(i, j int) bool { return out[i] < out[j] })
	return out
}

// start launches a new incarnation of nid on dir (which is created and given
// its identity if new).
func (c *Cluster) start(nid uint64, dir string) (*Node, error) {
	if err := os.MkdirAll(dir, 0700); err != nil {
		return nil, err
	}
	if err := raft.SetIdentity(dir, c.cid, nid); err != nil {
		return nil, fmt.Errorf("SetIdentity: %v", err)
	}
	c.mu.Lock()
	c.incs[nid]++
	inc := c.incs[nid]
	c.mu.Unlock()
	n := &Node{cl: c, nid: nid, inc: inc, dir: dir, addr: c.addrOf(nid),
		label:    fmt.Sprintf("%d/%d#%d", c.cid, nid, inc),
		serveRet: make(chan struct{}), gone: make(chan struct{})}
	n.fsm = newRecFSM(c.rc, dir)
	c.rc.register(dir, &nodeRef{cid: c.cid, nid: nid, inc: inc, label: n.label})
	// (a short record: the system-call monitor reads it from the trace)
	c.rc.emitNode(dir, &ev.Rec{K: "node-dir", Dir: dir})
	r, err := raft.New(c.opt, n.fsm, dir)
	if err != nil {
		c.rc.emitNode(dir, &ev.Rec{K: "open-failed", Err: err.Error(), Dir: dir})
		return nil, err
	}
	n.r = r
	if c.quorumWait > 0 {
		r.VerifSetQuorumWait(c.quorumWait)
	}
	raft.VerifRegister(r)
	label := n.label
	r.VerifSetDial(func(network, address string, timeout time.Duration) (net.Conn, error) {
		return c.net.Dial(label, address, timeout)
	})
	// open event: what the incarnation found on disk
	st := r.VerifState()
	prev, entries, lerr := r.VerifReadLog(false)
	latest, committed := r.VerifConfigs()
	rec := &ev.Rec{K: "open", St: cvSt(&st), Prev: prev, Dir: dir, Cfg: cvCfg(&latest), CfgC: cvCfg(&committed)}
	for i := range entries {
		rec.Log = append(rec.Log, *cvEntry(&entries[i]))
	}
	if lerr != nil {
		rec.Err = lerr.Error()
	}
	c.rc.emitNode(dir, rec)

	n.lis = c.net.Listen(n.addr, n.label)
	go func() {
		n.serveErr = r.Serve(n.lis)
		atomic.StoreInt32(&n.exited, 1)
		close(n.serveRet)
		e := &ev.Rec{K: "serve-exit"}
		if n.serveErr != nil {
			e.Err = n.serveErr.Error()
		}
		c.rc.emitNode(dir, e)
		n.goneOnce.Do(func() { close(n.gone) })
	}()
	c.mu.Lock()
	c.nodes[nid] = n
	c.all = append(c.all, n)
	c.mu.Unlock()
	return n, nil
}

// shutdown stops a node gracefully; returns false if Shutdown did not
// finish within the (generous, wall clock) watchdog.
func (n *Node) shutdown(watchdog time.Duration) bool {
	n.cl.mu.Lock()
	if n.isStopped() || n.isCrashed() {
		n.cl.mu.Unlock()
		return true
	}
	atomic.StoreInt32(&n.stoppedF, 1)
	n.cl.mu.Unlock()
	n.cl.rc.emitNode(n.dir, &ev.Rec{K: "shutdown-call"})
	ctx, cancel := context.WithTimeout(context.Background(), watchdog)
	defer cancel()
	err := n.r.Shutdown(ctx)
	rec := &ev.Rec{K: "shutdown-ret"}
	if err != nil {
		rec.Err = err.Error()
	}
	n.cl.rc.emitNode(n.dir, rec)
	if err == nil {
		select {
		case <-n.serveRet:
		case <-time.After(watchdog):
			n.cl.rc.emitNode(n.dir, &ev.Rec{K: "serve-stuck"})
			return false
		}
		raft.VerifUnregister(n.r)
	}
	n.goneOnce.Do(func() { close(n.gone) })
	return err == nil
}

// restart shuts the current incarnation down gracefully and starts a new one
// on the same directory.
func (c *Cluster) restart(nid uint64) (*Node, error) {
	n := c.node(nid)
	if n == nil {
		return nil, fmt.Errorf("no node %d", nid)
	}
	if !n.shutdown(30 * time.Second) {
		return nil, fmt.Errorf("shutdown of %s did not finish", n.label)
	}
	return c.start(nid, n.dir)
}

// crash arms a hard crash of nid at the occ-th next occurrence of point.
func (c *Cluster) crash(nid uint64, point string, occ int) {
	if n := c.node(nid); n != nil && !n.isCrashed() && !n.isStopped() {
		c.pc.planCrash(n.dir, point, occ)
	}
}

// onCrash is called by Points on the crashing goroutine.
func (c *Cluster) onCrash(dir, image, point string, occ int) {
	c.mu.Lock()
	var n *Node
	for _, x := range c.nodes {
		if x.dir == dir {
			n = x
		}
	}
	if n != nil {
		atomic.StoreInt32(&n.crashedF, 1)
	}
	c.mu.Unlock()
	if n == nil {
		return
	}
	c.net.Kill(n.label)
	n.goneOnce.Do(func() { close(n.gone) })
}

// recoverCrashed starts a new incarnation for every crashed node on its image.
func (c *Cluster) recoverCrashed() {
	c.mu.Lock()
	var todo []*Node
	for _, n := range c.nodes {
		if n.isCrashed() {
			todo = append(todo, n)
		}
	}
	c.mu.Unlock()
	for _, n := range todo {
		image := c.crashImage(n)
		if image == "" {
			continue
		}
		if _, err := c.start(n.nid, image); err != nil {
			c.rc.emit(&ev.Rec{K: "restart-failed", Cid: c.cid, Nid: n.nid, Err: err.Error(), Dir: image})
		}
	}
}

func (c *Cluster) crashImage(n *Node) string {
	m, _ := filepath.Glob(n.dir + ".img*")
	sort.Strings(m)
	if len(m) == 0 {
		return ""
	}
	return m[len(m)-1]
}

// tasks ---------------------------------------------------------------------

// operation ids are unique per process (several clusters share one event log)
var globalOpID int64

func (c *Cluster) nextOp() int64 { return atomic.AddInt64(&globalOpID, 1) }

// submitTask sends t to n's task channel; false if the node is gone.
func (n *Node) submitTask(t raft.Task) bool {
	select {
	case <-n.gone:
		return false
	case <-n.r.Closed():
		return false
	case n.r.Tasks() <- t:
		return true
	}
}

// submitTaskWithin is submitTask with a bound: a node whose raft goroutine
// is blocked accepts nothing.
func (n *Node) submitTaskWithin(t raft.Task, d time.Duration) bool {
	select {
	case <-n.gone:
		return false
	case <-n.r.Closed():
		return false
	case n.r.Tasks() <- t:
		return true
	case <-time.After(d):
		return false
	}
}

func (n *Node) isGone() bool {
	select {
	case <-n.gone:
		return true
	case <-n.r.Closed():
		return true
	default:
		return false
	}
}

func (n *Node) submitFSM(t raft.FSMTask) bool {
	select {
	case <-n.gone:
		return false
	case <-n.r.Closed():
		return false
	case n.r.FSMTasks() <- t:
		return true
	}
}

// wait waits for t; false if the node went away first.
func (n *Node) wait(t raft.Task) bool {
	// The harness itself must reach the end of the run, or a node that has
	// stopped completing tasks is only ever seen by the run's watchdog. A
	// minute is far beyond anything a task legitimately waits for here
	// (quorum wait and transfer timeouts are at most 60 heartbeat timeouts);
	// the verdict on the task is given after the shutdown of all nodes
	// (task-stuck), not here.
	bound := 60 * time.Second
	if atomic.LoadInt32(&n.slow) != 0 {
		bound = 2 * time.Second
	}
	tm := time.NewTimer(bound)
	defer tm.Stop()
	select {
	case <-t.Done():
		return true
	case <-tm.C:
		atomic.StoreInt32(&n.slow, 1)
		n.cl.rc.emitNode(n.dir, &ev.Rec{K: "wait-abandoned"})
		return false
	case <-n.gone:
		// a gracefully stopped node completes its tasks; give it the chance
		select {
		case <-t.Done():
			return true
		case <-time.After(50 * time.Millisecond):
			return false
		}
	}
}

func (c *Cluster) track(t raft.Task, n *Node, oid int64, op string) *trackedTask {
	tt := &trackedTask{t: t, n: n, oid: oid, op: op}
	c.taskMu.Lock()
	c.tasks = append(c.tasks, tt)
	c.taskMu.Unlock()
	return tt
}

func errKind(err error) (kind string, lost bool, detail string) {
	switch e := err.(type) {
	case nil:
		return "", false, ""
	case raft.NotLeaderError:
		return "notleader", e.Lost, fmt.Sprint(e.Leader.ID)
	case raft.InProgressError:
		return "inprogress", false, string(e)
	case raft.TimeoutError:
		return "timeout", false, string(e)
	}
	switch err {
	case raft.ErrServerClosed:
		return "closed", false, ""
	case raft.ErrNotCommitReady:
		return "notready", false, ""
	case raft.ErrStaleConfig:
		return "stale", false, ""
	case raft.ErrSnapshotThreshold, raft.ErrNoUpdates:
		return "nosnap", false, err.Error()
	case raft.ErrQuorumUnreachable:
		return "noquorum", false, ""
	case raft.ErrTransferNoVoter, raft.ErrTransferSelf, raft.ErrTransferTargetNonvoter, raft.ErrTransferInvalidTarget:
		return "xfer-invalid", false, err.Error()
	}
	return "other", false, err.Error()
}

// info obtains the status of a node through the public GetInfo task.
func (n *Node) info(record bool) (raft.Info, bool) {
	t := raft.GetInfo()
	if !n.submitTask(t) {
		return raft.Info{}, false
	}
	select {
	case <-t.Done():
	case <-n.gone:
		return raft.Info{}, false
	case <-time.After(15 * time.Second):
		n.cl.rc.emitNode(n.dir, &ev.Rec{K: "info-stuck"})
		return raft.Info{}, false
	}
	info, ok := t.Result().(raft.Info)
	if !ok {
		return raft.Info{}, false
	}
	if record {
		n.cl.rc.emitNode(n.dir, &ev.Rec{K: "info", Info: cvInfo(&info)})
	}
	return info, true
}

func cvConfig(c raft.Config) *ev.Cfg {
	out := &ev.Cfg{Index: c.Index, Term: c.Term}
	for _, n := range c.Nodes {
		out.Nodes = append(out.Nodes, ev.Node{ID: n.ID, Addr: n.Addr, Voter: n.Voter, Action: uint8(n.Action)})
	}
	sort.Slice(out.Nodes, func(i, j int) bool { return out.Nodes[i].ID < out.Nodes[j].ID })
	return out
}

func cvInfo(i *raft.Info) *ev.Info {
	return &ev.Info{Term: i.Term, State: string(rune(i.State)), Leader: i.Leader, Snap: i.SnapshotIndex,
		First: i.FirstLogIndex, Last: i.LastLogIndex, LastTerm: i.LastLogTerm, Commit: i.Committed,
		Applied: i.LastApplied, CfgL: cvConfig(i.Configs.Latest), CfgC: cvConfig(i.Configs.Committed)}
}

// dump records the real log and state of a node (on its raft goroutine).
func (n *Node) dump(note string) bool {
	done := make(chan struct{})
	go func() {
		defer close(done)
		_ = n.r.VerifInspect(func() {
			st := n.r.VerifState()
			prev, entries, err := n.r.VerifReadLog(false)
			latest, committed := n.r.VerifConfigs()
			rec := &ev.Rec{K: "dump", St: cvSt(&st), Prev: prev, Note: note, Cfg: cvCfg(&latest), CfgC: cvCfg(&committed)}
			for i := range entries {
				rec.Log = append(rec.Log, *cvEntry(&entries[i]))
			}
			if err != nil {
				rec.Err = err.Error()
			}
			list, roll := n.fsm.snapshotList()
			rec.Cnt, rec.H = int64(len(list)), roll
			n.cl.rc.emitNode(n.dir, rec)
		})
	}()
	select {
	case <-done:
		return true
	case <-n.gone:
		return false
	case <-time.After(20 * time.Second):
		return false
	}
}

// leader returns a live node that reports itself leader (highest term), or nil.
func (c *Cluster) leader() *Node {
	var best *Node
	var bestTerm uint64
	for _, n := range c.liveNodes() {
		info, ok := n.info(false)
		if ok && info.State == raft.Leader && info.Term >= bestTerm {
			best, bestTerm = n, info.Term
		}
	}
	return best
}

// waitLeader polls until some node reports itself leader.
func (c *Cluster) waitLeader(timeout time.Duration) *Node {
	deadline := time.Now().Add(timeout)
	for time.Now().Before(deadline) {
		if l := c.leader(); l != nil {
			return l
		}
		time.Sleep(c.hb / 4)
	}
	return nil
}

// bootstrap starts nodes ids and bootstraps the cluster through the public
// ChangeConfig task on the first of them.
func (c *Cluster) bootstrap(ids []uint64) error {
	for _, id := range ids {
		if _, err := c.start(id, c.dirOf(id)); err != nil {
			return err
		}
	}
	conf := raft.Config{Nodes: map[uint64]raft.Node{}}
	for _, id := range ids {
		if err := conf.AddVoter(id, c.addrOf(id)); err != nil {
			return err
		}
	}
	n := c.node(ids[0])
	t := raft.ChangeConfig(conf)
	oid := c.nextOp()
	c.rc.emitNode(n.dir, &ev.Rec{K: "admin-call", Op: "bootstrap", OpID: oid, Cfg: cvConfig(conf)})
	if !n.submitTask(t) || !n.wait(t) {
		return fmt.Errorf("bootstrap task lost")
	}
	rec := &ev.Rec{K: "admin-ret", Op: "bootstrap", OpID: oid}
	if t.Err() != nil {
		rec.Err = t.Err().Error()
	}
	c.rc.emitNode(n.dir, rec)
	return t.Err()
}

// shutdownAll stops every live node and reports tasks that never completed.
func (c *Cluster) shutdownAll() {
	var wg sync.WaitGroup
	for _, n := range c.liveNodes() {
		wg.Add(1)
		go func(n *Node) {
			defer wg.Done()
			n.shutdown(30 * time.Second)
		}(n)
	}
	wg.Wait()
	time.Sleep(20 * time.Millisecond)
	c.taskMu.Lock()
	defer c.taskMu.Unlock()
	for _, tt := range c.tasks {
		if tt.n.isCrashed() {
			continue
		}
		select {
		case <-tt.t.Done():
		default:
			c.rc.emitNode(tt.n.dir, &ev.Rec{K: "task-stuck", Op: tt.op, OpID: tt.oid})
		}
	}
}
