package main

import (
	"bufio"
	"bytes"
	"fmt"
	"math/rand"
	"net"
	"os"
	"path/filepath"
	"sort"
	"sync/atomic"
	"time"

	"github.com/santhosh-tekuri/raft"

	"verif/ev"
	"verif/memnet"
)

// Engine B: one real node (the NUT, node 1) served on the in-memory network;
// the harness plays all its peers at wire level. Requests are drawn from a
// consistent universe - a generated legal Raft history (one leader per term,
// leader logs forming a prefix-consistent tree, a monotone committed prefix
// contained in every later leader's log, snapshots only of committed
// prefixes) - but delivered stale, duplicated and reordered, over fresh or
// old connections. Only inputs a correct but arbitrarily delayed peer could
// send are generated, so a correct node can never be put in the wrong.
// Delivery is synchronous (one request, then its reply), hence deterministic.

type uEntry struct {
	idx, term uint64
	typ       uint8
	data      []byte
}

type epoch struct {
	n        int // ordinal
	term     uint64
	leader   uint64
	log      []uEntry
	commit   uint64 // what this leader knows to be committed
	firstOwn uint64
	next     uint64 // next index to send to the NUT (well-behaved traffic)
	vid      uint64 // id under which the leader's log is entered for the oracles
}

type wireMsg struct {
	m       raft.VerifMsg
	payload []byte
	entries []uEntry
	from    uint64
	ep      int
	note    string
}

type engineB struct {
	cfg *RunConfig
	rc  *Recorder
	pc  *Points
	net *memnet.Net
	cl  *Cluster
	rng *rand.Rand
	res *Result

	nut   *Node
	conns map[uint64]*wirePeer // by sender id

	epochs    []*epoch
	C         []uEntry
	nextTerm  uint64
	updSeq    int
	cfgIdx    int
	has6      bool
	bag       []*wireMsg
	sent      int64
	steps     int64
	peersUp   bool
	cid       uint64
	vfsmOpen  bool
	vlen      int64
	vroll     uint64
	burst     bool
	truncated int64
	fragK     int
	crashAt   int
}

const nutID = 1

func (e *engineB) hbOpt() raft.Options {
	return raft.Options{
		HeartbeatTimeout: time.Hour, PromoteThreshold: time.Hour, Bandwidth: 1 << 20,
		LogSegmentSize: e.cfg.paramInt("seg", 1024*(1+e.rng.Intn(4))), SnapshotsRetain: 1 + e.rng.Intn(2), ShutdownOnRemove: true,
	}
}

func newEngineB(cfg *RunConfig, rc *Recorder, res *Result) *engineB {
	e := &engineB{cfg: cfg, rc: rc, res: res, rng: rand.New(rand.NewSource(cfg.Seed)), conns: map[uint64]*wirePeer{}, nextTerm: 1, cid: 1}
	e.pc = newPoints(rc, cfg.Seed^0x5eed)
	e.net = memnet.New(cfg.Seed ^ 0x9e7)
	rc.install(e.pc)
	rc.stepEvery = true
	return e
}

func (e *engineB) startNUT(dir string) error {
	if e.cl == nil {
		e.cl = newCluster(e.cid, e.rc, e.pc, e.net, filepath.Join(e.cfg.Scratch, fmt.Sprintf("u%d", e.cid)), e.hbOpt(), e.cfg.Seed^0xc1)
		e.pc.onCrash = e.cl.onCrash
	}
	n, err := e.cl.start(nutID, dir)
	if err != nil {
		return err
	}
	e.nut = n
	for _, p := range e.conns {
		p.close()
	}
	e.conns = map[uint64]*wirePeer{}
	if !e.peersUp {
		e.peersUp = true
		for id := uint64(2); id <= 6; id++ {
			e.servePeer(id)
		}
	}
	return nil
}

// servePeer answers the NUT's own requests to peer id: handshake ok, votes
// refused (the NUT never leads in this engine).
func (e *engineB) servePeer(id uint64) {
	lis := e.net.Listen(e.cl.addrOf(id), fmt.Sprintf("peer%d", id))
	go func() {
		for {
			c, err := lis.Accept()
			if err != nil {
				return
			}
			go func(c net.Conn) {
				defer c.Close()
				br := bufio.NewReader(c)
				for {
					b, err := br.ReadByte()
					if err != nil {
						return
					}
					kind := []string{"identity", "vote", "append", "installSnap", "timeoutNow"}[int(b)%5]
					req, err := raft.VerifDecodeReq(kind, br)
					if err != nil {
						return
					}
					resp := raft.VerifMsg{Kind: kind, Term: req.Term, Result: "success"}
					if kind == "vote" {
						resp.Result = "alreadyVoted"
					}
					if kind != "identity" && kind != "vote" {
						return
					}
					out, _ := raft.VerifEncodeResp(resp)
					if _, err := c.Write(out); err != nil {
						return
					}
				}
			}(c)
		}
	}()
}

// universe ----------------------------------------------------------------------

func (e *engineB) vEmit(ep *epoch, r *ev.Rec) {
	r.Cid, r.Nid, r.Inc = e.cid, ep.vid, 1
	e.rc.emit(r)
}

func hashOf(b []byte) uint64 { return ev.Hash(b) }

func (e *engineB) vState(ep *epoch, state string) *ev.St {
	var lt uint64
	if len(ep.log) > 0 {
		lt = ep.log[len(ep.log)-1].term
	}
	return &ev.St{Term: ep.term, State: state, Leader: ep.vid, Commit: ep.commit, Last: uint64(len(ep.log)), LastTerm: lt, LdrStart: ep.firstOwn, CfgL: 1, CfgC: 1}
}

func (e *engineB) vAppend(ep *epoch, typ uint8, data []byte) {
	en := uEntry{idx: uint64(len(ep.log)) + 1, term: ep.term, typ: typ, data: data}
	ep.log = append(ep.log, en)
	rec := &ev.Rec{K: "append", E: &ev.Entry{Index: en.idx, Term: en.term, Typ: typ, Hash: hashOf(data)}, St: e.vState(ep, "L")}
	if typ == ev.TypConfig {
		if c, err := raft.VerifDecodeConfig(raft.VerifEntry{Index: en.idx, Term: en.term, Typ: typ, Data: data}); err == nil {
			rec.Cfg = cvConfig(c)
		}
	}
	e.vEmit(ep, rec)
}

func (e *engineB) bootstrapConfig(with6 bool, idx, term uint64) []byte {
	c := raft.Config{Nodes: map[uint64]raft.Node{}, Index: idx, Term: term}
	for id := uint64(1); id <= 5; id++ {
		c.Nodes[id] = raft.Node{ID: id, Addr: e.cl.addrOf(id), Voter: true}
	}
	if with6 {
		c.Nodes[6] = raft.Node{ID: 6, Addr: e.cl.addrOf(6)}
	}
	return raft.VerifConfigEntry(c).Data
}

func (e *engineB) newest() *epoch { return e.epochs[len(e.epochs)-1] }

func samePrefix(a, b []uEntry, n int) bool {
	if len(a) < n || len(b) < n {
		return false
	}
	for i := 0; i < n; i++ {
		if a[i].term != b[i].term {
			return false
		}
	}
	return true
}

// newEpoch: a new leader whose log is an earlier leader's log cut at any
// length that still contains the committed prefix, plus its no-op.
func (e *engineB) newEpoch() *epoch {
	ep := &epoch{n: len(e.epochs), term: e.nextTerm, leader: uint64(2 + e.rng.Intn(4))}
	e.nextTerm++
	ep.vid = uint64(100 + ep.n)
	if len(e.epochs) > 0 {
		var cands []*epoch
		for _, b := range e.epochs {
			if samePrefix(b.log, e.C, len(e.C)) {
				cands = append(cands, b)
			}
		}
		b := cands[e.rng.Intn(len(cands))]
		k := len(e.C) + e.rng.Intn(len(b.log)-len(e.C)+1)
		ep.log = append([]uEntry(nil), b.log[:k]...)
		ep.commit = uint64(e.rng.Intn(len(e.C) + 1))
	}
	ep.firstOwn = uint64(len(ep.log)) + 1
	ep.next = ep.firstOwn
	e.epochs = append(e.epochs, ep)
	e.rc.emit(&ev.Rec{K: "wire-id", ID: ep.vid, Src: ep.leader})
	// enter the leader's log for the oracles
	open := &ev.Rec{K: "open", St: e.vState(ep, "F"), Cfg: &ev.Cfg{Index: 1, Term: 1}}
	for _, en := range ep.log {
		open.Log = append(open.Log, ev.Entry{Index: en.idx, Term: en.term, Typ: en.typ, Hash: hashOf(en.data)})
	}
	e.vEmit(ep, open)
	e.vEmit(ep, &ev.Rec{K: "state", St: e.vState(ep, "L")})
	if len(ep.log) == 0 {
		e.vAppend(ep, ev.TypConfig, e.bootstrapConfig(false, 1, ep.term))
		ep.firstOwn = 1
	}
	e.vAppend(ep, ev.TypNop, nil)
	return ep
}

func (e *engineB) evolve() {
	ep := e.newest()
	switch x := e.rng.Intn(100); {
	case x < 45: // the newest leader appends
		k := 1 + e.rng.Intn(4)
		for i := 0; i < k; i++ {
			e.updSeq++
			pad := ""
			if e.rng.Intn(4) == 0 {
				pad = "~" + string(bytes.Repeat([]byte("x"), e.rng.Intn(300)))
			}
			e.vAppend(ep, ev.TypUpdate, []byte(fmt.Sprintf("u%d%s", e.updSeq, pad)))
		}
	case x < 50: // a membership entry (non-voter 6 comes and goes)
		// as a correct leader does it: only when its previous configuration is
		// committed and it has committed an entry of its own term
		var lastCfg uint64
		for _, en := range ep.log {
			if en.typ == ev.TypConfig {
				lastCfg = en.idx
			}
		}
		if ep.commit >= ep.firstOwn && lastCfg <= ep.commit {
			has6 := false
			if c, err := raft.VerifDecodeConfig(raft.VerifEntry{Index: lastCfg, Term: ep.log[lastCfg-1].term, Typ: ev.TypConfig, Data: ep.log[lastCfg-1].data}); err == nil {
				_, has6 = c.Nodes[6]
			}
			e.vAppend(ep, ev.TypConfig, e.bootstrapConfig(!has6, uint64(len(ep.log))+1, ep.term))
		}
	case x < 75: // the newest leader commits (only up to entries of its own term)
		if uint64(len(ep.log)) >= ep.firstOwn {
			lo := ep.firstOwn
			if ep.commit+1 > lo {
				lo = ep.commit + 1
			}
			if uint64(len(ep.log)) >= lo {
				ep.commit = lo + uint64(e.rng.Intn(len(ep.log)-int(lo)+1))
				e.vEmit(ep, &ev.Rec{K: "commit", Idx: ep.commit, St: e.vState(ep, "L")})
				if int(ep.commit) > len(e.C) {
					old := len(e.C)
					e.C = append([]uEntry(nil), ep.log[:ep.commit]...)
					e.applyVirtual(old)
				}
			}
		}
	case x < 83: // a deposed leader still appends to its own log
		if len(e.epochs) > 1 {
			old := e.epochs[e.rng.Intn(len(e.epochs)-1)]
			e.updSeq++
			e.vAppend(old, ev.TypUpdate, []byte(fmt.Sprintf("u%d", e.updSeq)))
		}
	case x < 92:
		if len(e.epochs) < 12 {
			e.newEpoch()
		}
	}
}

// applyVirtual feeds the newly committed entries to a virtual state machine
// (node 99), which defines the global applied sequence for the oracles.
func (e *engineB) applyVirtual(from int) {
	if !e.vfsmOpen {
		e.vfsmOpen = true
		e.rc.emit(&ev.Rec{K: "wire-id", ID: 99})
		e.rc.emit(&ev.Rec{K: "open", Cid: e.cid, Nid: 99, Inc: 1, St: &ev.St{State: "F"}})
		e.vroll = ev.RollInit
	}
	for _, en := range e.C[from:] {
		if en.typ == ev.TypUpdate {
			e.vlen++
			e.vroll = ev.Roll(e.vroll, string(en.data))
			e.rc.emit(&ev.Rec{K: "fsm-update", Cid: e.cid, Nid: 99, Inc: 1, Val: string(en.data), Pos: e.vlen, H: e.vroll})
		}
		e.rc.emit(&ev.Rec{K: "applied", Cid: e.cid, Nid: 99, Inc: 1, E: &ev.Entry{Index: en.idx, Term: en.term, Typ: en.typ, Hash: hashOf(en.data)}})
	}
}

// messages ----------------------------------------------------------------------

func encodeEntries(es []uEntry) []byte {
	var b []byte
	for _, en := range es {
		b = append(b, raft.VerifEncodeEntry(raft.VerifEntry{Index: en.idx, Term: en.term, Typ: en.typ, Data: en.data})...)
	}
	return b
}

func (e *engineB) appendMsg(ep *epoch, prev uint64, n int, note string) *wireMsg {
	var pt uint64
	if prev > 0 {
		pt = ep.log[prev-1].term
	}
	if int(prev)+n > len(ep.log) {
		n = len(ep.log) - int(prev)
	}
	es := ep.log[prev : int(prev)+n]
	return &wireMsg{m: raft.VerifMsg{Kind: "append", Term: ep.term, Src: ep.leader, A: prev, B: pt, C: ep.commit, N: uint64(n)},
		payload: encodeEntries(es), entries: append([]uEntry(nil), es...), from: ep.leader, ep: ep.n, note: note}
}

func (e *engineB) snapMsg(ep *epoch, s uint64) *wireMsg {
	var ids bytes.Buffer
	cfgData := e.bootstrapConfig(false, 1, 1)
	cfgE := uEntry{idx: 1, term: ep.log[0].term}
	for _, en := range ep.log[:s] {
		if en.typ == ev.TypUpdate {
			ids.Write(en.data)
			ids.WriteByte('\n')
		}
		if en.typ == ev.TypConfig {
			cfgData, cfgE = en.data, en
		}
	}
	c, _ := raft.VerifDecodeConfig(raft.VerifEntry{Index: cfgE.idx, Term: cfgE.term, Typ: ev.TypConfig, Data: cfgData})
	return &wireMsg{m: raft.VerifMsg{Kind: "installSnap", Term: ep.term, Src: ep.leader, A: s, B: ep.log[s-1].term, C: uint64(ids.Len()), Cfg: &c},
		payload: ids.Bytes(), from: ep.leader, ep: ep.n, note: "snapshot"}
}

func (e *engineB) connFor(src uint64, fresh bool) (*wirePeer, error) {
	if p := e.conns[src]; p != nil && !fresh {
		return p, nil
	}
	if p := e.conns[src]; p != nil && e.rng.Intn(2) == 0 {
		p.close() // otherwise the old connection stays open, idle
	}
	p, resp, err := wireDial(e.net, fmt.Sprintf("wire%d", src), src, e.nut.addr, e.cid, nutID, 5*time.Second)
	if err != nil {
		return nil, fmt.Errorf("handshake: %v (%s)", err, resp.Result)
	}
	e.conns[src] = p
	return p, nil
}

// deliver sends one message and reads its reply.
func (e *engineB) deliver(w *wireMsg, fresh bool) (raft.VerifMsg, error) {
	p, err := e.connFor(w.from, fresh)
	if err != nil {
		return raft.VerifMsg{}, err
	}
	atomic.AddInt64(&e.sent, 1)
	rec := &ev.Rec{K: "wire-send", RPC: w.m.Kind, Src: w.from, ReqTerm: w.m.Term, A: w.m.A, B: w.m.B, C: w.m.C, NEnt: w.m.N, Xfer: w.m.Xfer, Note: w.note, Nid: nutID, Cid: e.cid}
	for _, en := range w.entries {
		rec.Log = append(rec.Log, ev.Entry{Index: en.idx, Term: en.term, Typ: en.typ, Hash: hashOf(en.data)})
	}
	e.rc.emit(rec)
	resp, err := p.call(w.m, w.payload, 10*time.Second)
	out := &ev.Rec{K: "wire-recv", RPC: w.m.Kind, Src: w.from, ReqTerm: w.m.Term, Res: resp.Result, RespTerm: resp.Term, RespLast: resp.RespLast, Nid: nutID, Cid: e.cid}
	if err != nil {
		out.Err = err.Error()
		p.close()
		delete(e.conns, w.from)
	}
	e.rc.emit(out)
	return resp, err
}

func (e *engineB) keep(w *wireMsg) {
	if len(e.bag) < 300 {
		e.bag = append(e.bag, w)
	} else {
		e.bag[e.rng.Intn(len(e.bag))] = w
	}
}

// freshTraffic: the newest (or any) leader behaves like a real one towards the NUT.
func (e *engineB) freshTraffic(ep *epoch) error {
	if ep.next < 1 {
		ep.next = 1
	}
	if ep.next > uint64(len(ep.log))+1 {
		ep.next = uint64(len(ep.log)) + 1
	}
	prev := ep.next - 1
	n := e.rng.Intn(8)
	if e.rng.Intn(6) == 0 {
		n = 64
	}
	w := e.appendMsg(ep, prev, n, "fresh")
	e.keep(w)
	resp, err := e.deliver(w, e.rng.Intn(12) == 0)
	if err != nil {
		return nil
	}
	switch resp.Result {
	case "success":
		ep.next = prev + w.m.N + 1
	case "prevEntryNotFound", "prevTermMismatch":
		nx := ep.next - 1
		if resp.RespLast+1 < nx {
			nx = resp.RespLast + 1
		}
		if nx < 1 {
			nx = 1
		}
		ep.next = nx
	}
	return nil
}

// runUniverse is the random scenario.
func (e *engineB) runUniverse() error {
	if err := e.startNUT(e.cl0dir()); err != nil {
		return err
	}
	if e.crashAt > 0 {
		e.pc.planCrash(e.nut.dir, "*", e.crashAt)
	}
	if e.fragK > 0 {
		for id := uint64(2); id <= 6; id++ {
			e.net.Frag(fmt.Sprintf("wire%d", id), e.nut.label, e.fragK)
		}
	}
	e.newEpoch()
	steps := e.cfg.paramInt("steps", 400)
	for i := 0; i < steps; i++ {
		e.steps++
		if e.nut.isCrashed() {
			// the process was killed: the operator starts it again on what is on disk
			img := e.cl.crashImage(e.nut)
			if img == "" {
				return fmt.Errorf("no crash image")
			}
			if err := e.startNUT(img); err != nil {
				e.rc.emit(&ev.Rec{K: "restart-failed", Cid: e.cid, Nid: nutID, Err: err.Error(), Dir: img})
				return nil
			}
		}
		if !e.nut.alive() {
			e.rc.emit(&ev.Rec{K: "nut-gone", Nid: nutID, Cid: e.cid})
			break
		}
		if e.burst && e.rng.Intn(3) == 0 {
			e.burstTraffic(e.newest())
			continue
		}
		switch x := e.rng.Intn(100); {
		case x < 22:
			e.evolve()
		case x < 62:
			_ = e.freshTraffic(e.newest())
		case x < 68: // well-behaved traffic of a deposed leader
			_ = e.freshTraffic(e.epochs[e.rng.Intn(len(e.epochs))])
		case x < 80: // arbitrary request any leader could have produced at some time
			ep := e.epochs[e.rng.Intn(len(e.epochs))]
			prev := uint64(e.rng.Intn(len(ep.log) + 1))
			w := e.appendMsg(ep, prev, e.rng.Intn(70), "arbitrary")
			e.keep(w)
			_, _ = e.deliver(w, e.rng.Intn(4) == 0)
		case x < 90: // stale / duplicate delivery from the bag
			if len(e.bag) > 0 {
				w := e.bag[e.rng.Intn(len(e.bag))]
				w2 := *w
				w2.note = "replayed"
				_, _ = e.deliver(&w2, e.rng.Intn(3) == 0)
			}
		case x < 94: // snapshot of a committed prefix
			ep := e.epochs[e.rng.Intn(len(e.epochs))]
			if ep.commit > 0 {
				s := 1 + uint64(e.rng.Intn(int(ep.commit)))
				w := e.snapMsg(ep, s)
				e.keep(w)
				_, _ = e.deliver(w, e.rng.Intn(3) == 0)
			}
		case x < 97: // a candidate (may have any log of the tree) asks for a vote
			ep := e.epochs[e.rng.Intn(len(e.epochs))]
			k := e.rng.Intn(len(ep.log) + 1)
			var lt uint64
			if k > 0 {
				lt = ep.log[k-1].term
			}
			cand := uint64(2 + e.rng.Intn(4))
			t := e.nextTerm
			e.nextTerm++
			w := &wireMsg{m: raft.VerifMsg{Kind: "vote", Term: t, Src: cand, A: uint64(k), B: lt, Xfer: e.rng.Intn(3) == 0}, from: cand, note: "candidate"}
			e.keep(w)
			_, _ = e.deliver(w, e.rng.Intn(2) == 0)
		case x < 98: // the leader's connection drops (the NUT forgets its leader)
			ep := e.newest()
			if p := e.conns[ep.leader]; p != nil {
				p.close()
				delete(e.conns, ep.leader)
				time.Sleep(2 * time.Millisecond)
			}
		case x < 99: // snapshot on the NUT
			_, _ = e.cl.takeSnapshot(e.nut, 0)
		default: // graceful restart
			dir := e.nut.dir
			if e.nut.shutdown(30 * time.Second) {
				if err := e.startNUT(dir); err != nil {
					return err
				}
			}
		}
		if i%25 == 0 {
			e.nut.info(true)
		}
	}
	return e.finishB()
}

func (e *engineB) cl0dir() string {
	if e.cl == nil {
		e.cl = newCluster(e.cid, e.rc, e.pc, e.net, filepath.Join(e.cfg.Scratch, fmt.Sprintf("u%d", e.cid)), e.hbOpt(), e.cfg.Seed^0xc1)
		e.pc.onCrash = e.cl.onCrash
	}
	return e.cl.dirOf(nutID)
}

func (e *engineB) finishB() error {
	if e.nut != nil && e.nut.isCrashed() {
		if img := e.cl.crashImage(e.nut); img != "" {
			if err := e.startNUT(img); err != nil {
				e.rc.emit(&ev.Rec{K: "restart-failed", Cid: e.cid, Nid: nutID, Err: err.Error(), Dir: img})
			}
		}
	}
	e.pc.cancelCrash(e.nut.dir)
	if e.nut != nil && e.nut.alive() {
		// bring the NUT up to date with the newest leader, then dump
		ep := e.newest()
		if uint64(len(ep.log)) >= ep.firstOwn && ep.commit < uint64(len(ep.log)) {
			ep.commit = uint64(len(ep.log))
			e.vEmit(ep, &ev.Rec{K: "commit", Idx: ep.commit, St: e.vState(ep, "L")})
			if int(ep.commit) > len(e.C) {
				old := len(e.C)
				e.C = append([]uEntry(nil), ep.log[:ep.commit]...)
				e.applyVirtual(old)
			}
		}
		for i := 0; i < 300 && (ep.next <= uint64(len(ep.log)) || i == 0); i++ {
			_ = e.freshTraffic(ep)
			if e.nut.isCrashed() {
				break
			}
		}
		_ = e.freshTraffic(ep)
		info, ok := e.nut.info(true)
		if ok && (info.LastLogIndex != uint64(len(ep.log)) || info.Committed != ep.commit) {
			e.rc.emit(&ev.Rec{K: "not-caught-up", Cid: e.cid, Nid: nutID, Idx: info.LastLogIndex, Term: info.Committed, A: uint64(len(ep.log)), B: ep.commit})
		}
		e.nut.dump("final")
	}
	for _, p := range e.conns {
		p.close()
	}
	e.cl.shutdownAll()
	e.res.Counters["wire_requests"] = e.sent
	e.res.Counters["epochs"] = int64(len(e.epochs))
	e.res.Counters["committed_path"] = int64(len(e.C))
	return nil
}

func runEngineB(cfg *RunConfig, rc *Recorder, res *Result) error {
	e := newEngineB(cfg, rc, res)
	switch cfg.Scenario {
	case "universe":
		return e.runUniverse()
	case "votegrid":
		return e.runVoteGrid()
	case "crashenum":
		return e.runCrashEnum()
	case "framing":
		return e.runFraming()
	}
	return fmt.Errorf("unknown engine B scenario %q", cfg.Scenario)
}

var _ = sort.Ints
var _ = os.Remove

// burstTraffic writes several requests back to back in one write, then reads
// the replies (pipelining as the library's own replication does it).
func (e *engineB) burstTraffic(ep *epoch) {
	p, err := e.connFor(ep.leader, false)
	if err != nil {
		return
	}
	if ep.next < 1 {
		ep.next = 1
	}
	if ep.next > uint64(len(ep.log))+1 {
		ep.next = uint64(len(ep.log)) + 1
	}
	var buf []byte
	var ws []*wireMsg
	prev := ep.next - 1
	k := 2 + e.rng.Intn(4)
	for i := 0; i < k; i++ {
		w := e.appendMsg(ep, prev, e.rng.Intn(20), "burst")
		b, err := raft.VerifEncodeReq(w.m, true)
		if err != nil {
			return
		}
		buf = append(buf, b...)
		buf = append(buf, w.payload...)
		ws = append(ws, w)
		prev += w.m.N
	}
	for _, w := range ws {
		rec := &ev.Rec{K: "wire-send", RPC: "append", Src: w.from, ReqTerm: w.m.Term, A: w.m.A, B: w.m.B, C: w.m.C, NEnt: w.m.N, Note: w.note, Nid: nutID, Cid: e.cid}
		for _, en := range w.entries {
			rec.Log = append(rec.Log, ev.Entry{Index: en.idx, Term: en.term, Typ: en.typ, Hash: hashOf(en.data)})
		}
		rec.Kind = "burst"
		e.rc.emit(rec)
	}
	_ = p.conn.SetDeadline(time.Now().Add(10 * time.Second))
	if e.fragK > 0 && len(buf) > 2 && e.rng.Intn(4) == 0 {
		// the sender dies in the middle of the burst: the node reads a prefix
		// (whole requests, then part of one) and end-of-stream. What it makes
		// of the part is judged by the log rules: every entry it stores must
		// be an entry that was sent.
		cut := 1 + e.rng.Intn(len(buf)-1)
		e.rc.emit(&ev.Rec{K: "wire-truncated", Src: ep.leader, Nid: nutID, Cid: e.cid, Cnt: int64(cut), Pos: int64(len(buf))})
		_, _ = p.conn.Write(buf[:cut])
		p.close()
		delete(e.conns, ep.leader)
		atomic.AddInt64(&e.truncated, 1)
		return
	}
	if _, err := p.conn.Write(buf); err != nil {
		p.close()
		delete(e.conns, ep.leader)
		return
	}
	atomic.AddInt64(&e.sent, int64(len(ws)))
	okAll := true
	for _, w := range ws {
		resp, err := raft.VerifDecodeResp("append", p.br)
		out := &ev.Rec{K: "wire-recv", RPC: "append", Src: w.from, ReqTerm: w.m.Term, Res: resp.Result, RespTerm: resp.Term, RespLast: resp.RespLast, Nid: nutID, Cid: e.cid, A: w.m.A, NEnt: w.m.N, Kind: "burst"}
		if err != nil {
			out.Err = err.Error()
			e.rc.emit(out)
			p.close()
			delete(e.conns, ep.leader)
			return
		}
		e.rc.emit(out)
		if resp.Result == "success" && okAll {
			ep.next = w.m.A + w.m.N + 1
		} else {
			okAll = false
		}
	}
}

func (e *engineB) runFraming() error {
	e.burst = true
	e.fragK = 1 + e.rng.Intn(7)
	return e.runUniverse()
}

// runCrashEnum: pass 0 runs the seeded universe script and counts the hook
// point occurrences the node passes through; pass k kills the node at the
// k-th occurrence (directory copied = kill -9 image), restarts it on the image
// and lets the script go on; at the end the node must have caught up with the
// newest leader.
func (e *engineB) runCrashEnum() error {
	steps := e.cfg.paramInt("steps", 120)
	e.cfg.Params["steps"] = fmt.Sprint(steps)
	maxPasses := e.cfg.paramInt("passes", 150)
	// pass 0
	base := *e
	if err := e.runUniverse(); err != nil {
		return err
	}
	total := 0
	e.pc.mu.Lock()
	for dir, m := range e.pc.counts {
		if filepath.Base(dir) == fmt.Sprintf("c%dn%d", e.cid, nutID) {
			for _, v := range m {
				total += v
			}
		}
	}
	e.pc.mu.Unlock()
	e.rc.emit(&ev.Rec{K: "crashenum", Cnt: int64(total), Note: fmt.Sprintf("pass 0: %d hook occurrences in %d steps", total, steps)})
	stride := 1
	if total > maxPasses {
		stride = (total + maxPasses - 1) / maxPasses
	}
	off := 1 + e.rng.Intn(stride)
	passes := 0
	for k := off; k <= total; k += stride {
		passes++
		p := base // same seed, same script
		p.rng = rand.New(rand.NewSource(e.cfg.Seed))
		p.cid = uint64(1 + passes)
		p.conns = map[uint64]*wirePeer{}
		p.cl, p.nut, p.epochs, p.C, p.bag = nil, nil, nil, nil, nil
		p.peersUp, p.vfsmOpen = false, false
		p.crashAt = k
		if err := p.runUniverse(); err != nil {
			e.rc.emit(&ev.Rec{K: "harness-error", Err: fmt.Sprintf("pass %d: %v", k, err)})
		}
		e.sent += p.sent
	}
	e.rc.emit(&ev.Rec{K: "case-summary", Cnt: int64(passes), Pos: int64(passes)})
	e.res.Counters["passes"] = int64(passes)
	e.res.Counters["hook_occurrences"] = int64(total)
	return nil
}

// vote grid (C05) -----------------------------------------------------------------

type voteCase struct {
	logShape int    // 0: (1,t1)  1: (3,t2)  2: (5,t4)
	voted    uint64 // 0, 3, 4: vote cast in term 5
	leader   uint64 // 0, 3, 4: leader known in term 5
	rterm    uint64 // request term
	cand     uint64
	clog     int // candidate log relative to the voter's: 0 older term longer, 1 same term shorter, 2 equal, 3 same term longer, 4 newer term shorter
	xfer     bool
	bump     bool // before the request, a leader of the request's term (6) makes itself known and goes away again: the term is adopted outside the vote path
}

func (c voteCase) String() string {
	return fmt.Sprintf("log=%d voted=%d leader=%d bump=%v | req term=%d cand=%d clog=%d xfer=%v", c.logShape, c.voted, c.leader, c.bump, c.rterm, c.cand, c.clog, c.xfer)
}

var gridPath = []uEntry{{1, 1, ev.TypConfig, nil}, {2, 2, ev.TypNop, nil}, {3, 2, ev.TypUpdate, []byte("g3")}, {4, 4, ev.TypNop, nil}, {5, 4, ev.TypUpdate, []byte("g5")}}

// runVoteGrid enumerates voter state x request completely (the shard of it
// given by params shard/shards), each case followed by a second candidate in
// the same term, a restart and a third request; a seeded subset is crashed at
// the vote hooks.
func (e *engineB) runVoteGrid() error {
	shard, shards := e.cfg.paramInt("shard", 0), e.cfg.paramInt("shards", 1)
	var cases []voteCase
	for ls := 0; ls < 3; ls++ {
		for _, v := range []uint64{0, 3, 4} {
			for _, l := range []uint64{0, 3, 4} {
				for _, rt := range []uint64{4, 5, 6, 1<<63 + 1} {
					for _, cand := range []uint64{3, 4} {
						for cl := 0; cl < 5; cl++ {
							for _, x := range []bool{false, true} {
								cases = append(cases, voteCase{ls, v, l, rt, cand, cl, x, false})
								if rt == 6 {
									cases = append(cases, voteCase{ls, v, l, rt, cand, cl, x, true})
								}
							}
						}
					}
				}
			}
		}
	}
	n := 0
	for i, c := range cases {
		if i%shards != shard {
			continue
		}
		n++
		e.cid = uint64(1000 + i)
		if err := e.voteCase(i, c); err != nil {
			e.rc.emit(&ev.Rec{K: "harness-error", Err: fmt.Sprintf("case %d (%s): %v", i, c, err)})
			return nil
		}
	}
	e.res.Counters["vote_cases"] = int64(n)
	e.res.Counters["vote_cases_total"] = int64(len(cases))
	return nil
}

func (e *engineB) call(src uint64, m raft.VerifMsg, payload []byte, fresh bool) (raft.VerifMsg, error) {
	w := &wireMsg{m: m, payload: payload, from: src, note: "grid"}
	return e.deliver(w, fresh)
}

func (e *engineB) waitLeader(want uint64) {
	for i := 0; i < 400; i++ {
		if info, ok := e.nut.info(false); ok && info.Leader == want {
			return
		}
		time.Sleep(500 * time.Microsecond)
	}
}

func (e *engineB) voteCase(i int, c voteCase) error {
	e.cl, e.nut, e.peersUp = nil, nil, false
	e.conns = map[uint64]*wirePeer{}
	if err := e.startNUT(e.cl0dir()); err != nil {
		return err
	}
	e.rc.emit(&ev.Rec{K: "wire-id", ID: 2})
	// the log: entries from the leader of term 4 (peer 2)
	k := []int{1, 3, 5}[c.logShape]
	path := append([]uEntry(nil), gridPath...)
	path[0].data = e.bootstrapConfig(false, 1, 1)
	// enter the path for the oracles as the log of a virtual leader of term 4
	ep := &epoch{n: 0, term: 4, leader: 2, vid: 100, log: path, firstOwn: 4}
	e.epochs = []*epoch{ep}
	e.rc.emit(&ev.Rec{K: "wire-id", ID: ep.vid, Src: 2})
	open := &ev.Rec{K: "open", St: e.vState(ep, "F"), Cfg: &ev.Cfg{Index: 1, Term: 1}}
	for _, en := range path {
		open.Log = append(open.Log, ev.Entry{Index: en.idx, Term: en.term, Typ: en.typ, Hash: hashOf(en.data)})
	}
	e.vEmit(ep, open)
	e.vEmit(ep, &ev.Rec{K: "state", St: e.vState(ep, "L")})
	if _, err := e.call(2, raft.VerifMsg{Kind: "append", Term: 4, Src: 2, N: uint64(k)}, encodeEntries(path[:k]), false); err != nil {
		return err
	}
	li, lt := path[k-1].idx, path[k-1].term
	// forget the leader of term 4
	if p := e.conns[2]; p != nil {
		p.close()
		delete(e.conns, 2)
	}
	e.waitLeader(0)
	// state in term 5
	for _, id := range []uint64{3, 4} {
		vid := 100 + id
		e.rc.emit(&ev.Rec{K: "wire-id", ID: vid, Src: id})
	}
	if c.voted != 0 {
		if _, err := e.call(c.voted, raft.VerifMsg{Kind: "vote", Term: 5, Src: c.voted, A: li, B: lt}, nil, false); err != nil {
			return err
		}
	}
	if c.leader != 0 || c.voted == 0 {
		ldr := c.leader
		if ldr == 0 {
			ldr = 3
		}
		// the leader of term 5: a virtual leader whose log is the voter's
		lep := &epoch{n: 1, term: 5, leader: ldr, vid: 100 + ldr, log: append([]uEntry(nil), path[:k]...), firstOwn: uint64(k) + 1}
		e.vEmit(lep, &ev.Rec{K: "open", St: e.vState(lep, "F"), Cfg: &ev.Cfg{Index: 1, Term: 1}, Log: open.Log[:k]})
		e.vEmit(lep, &ev.Rec{K: "state", St: e.vState(lep, "L")})
		if _, err := e.call(ldr, raft.VerifMsg{Kind: "append", Term: 5, Src: ldr, A: li, B: lt}, nil, false); err != nil {
			return err
		}
		if c.leader == 0 {
			if p := e.conns[ldr]; p != nil {
				p.close()
				delete(e.conns, ldr)
			}
			e.waitLeader(0)
		}
	}
	if c.bump {
		// a leader of term 6 (peer 2 again) is heard from once, then its
		// connection ends: term 6 is adopted from a leader's request, what
		// the node remembers of its vote in term 5 must not carry over
		bep := &epoch{n: 2, term: 6, leader: 2, vid: 102, log: append([]uEntry(nil), path[:k]...), firstOwn: uint64(k) + 1}
		e.rc.emit(&ev.Rec{K: "wire-id", ID: bep.vid, Src: 2})
		e.vEmit(bep, &ev.Rec{K: "open", St: e.vState(bep, "F"), Cfg: &ev.Cfg{Index: 1, Term: 1}, Log: open.Log[:k]})
		e.vEmit(bep, &ev.Rec{K: "state", St: e.vState(bep, "L")})
		if _, err := e.call(2, raft.VerifMsg{Kind: "append", Term: 6, Src: 2, A: li, B: lt}, nil, true); err != nil {
			return err
		}
		if p := e.conns[2]; p != nil {
			p.close()
			delete(e.conns, 2)
		}
		e.waitLeader(0)
	}
	// the request under test
	var a, b uint64
	switch c.clog {
	case 0:
		a, b = li+3, lt-1
	case 1:
		a, b = li-1, lt
	case 2:
		a, b = li, lt
	case 3:
		a, b = li+2, lt
	case 4:
		a, b = 1, lt+1
	}
	plausible := b < c.rterm && !(c.clog == 1 && li <= 1) && !(c.clog == 0 && lt <= 1)
	rec := &ev.Rec{K: "case", H: ev.Hash([]byte(c.String())), On: plausible, Cid: e.cid}
	if i < 3 {
		rec.Note = c.String()
	}
	e.rc.emit(rec)
	if plausible {
		crash := e.rng.Intn(6) == 0
		if crash {
			e.pc.planCrash(e.nut.dir, []string{"vote.before", "vote.persisted", "rpc.reply"}[e.rng.Intn(3)], 1)
		}
		_, _ = e.call(c.cand, raft.VerifMsg{Kind: "vote", Term: c.rterm, Src: c.cand, A: a, B: b, Xfer: c.xfer}, nil, e.rng.Intn(2) == 0)
		if e.nut.isCrashed() {
			if err := e.startNUT(e.cl.crashImage(e.nut)); err != nil {
				e.rc.emit(&ev.Rec{K: "restart-failed", Cid: e.cid, Nid: nutID, Err: err.Error()})
				return nil
			}
		} else {
			e.pc.cancelCrash(e.nut.dir)
		}
		// a second candidate in the same term, with an up-to-date log
		other := uint64(7) - c.cand
		_, _ = e.call(other, raft.VerifMsg{Kind: "vote", Term: c.rterm, Src: other, A: li + 5, B: lt, Xfer: c.xfer}, nil, true)
		// restart, then both again
		dir := e.nut.dir
		if e.nut.shutdown(30 * time.Second) {
			if err := e.startNUT(dir); err != nil {
				e.rc.emit(&ev.Rec{K: "restart-failed", Cid: e.cid, Nid: nutID, Err: err.Error()})
				return nil
			}
			_, _ = e.call(other, raft.VerifMsg{Kind: "vote", Term: c.rterm, Src: other, A: li + 5, B: lt, Xfer: true}, nil, true)
			_, _ = e.call(c.cand, raft.VerifMsg{Kind: "vote", Term: c.rterm, Src: c.cand, A: li + 5, B: lt, Xfer: true}, nil, true)
		}
	}
	for _, p := range e.conns {
		p.close()
	}
	e.conns = map[uint64]*wirePeer{}
	e.cl.shutdownAll()
	_ = os.RemoveAll(e.cl.scratch)
	return nil
}
