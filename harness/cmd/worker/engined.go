package main

import (
	"bufio"
	"bytes"
	"context"
	"errors"
	"fmt"
	"io"
	"math/rand"
	"os"
	"path/filepath"
	"reflect"
	"strings"
	"time"

	"github.com/santhosh-tekuri/raft"

	"verif/ev"
	"verif/memnet"
)

// Engine D: wire and on-disk encodings (C18). For every codec:
// decode(encode(x) ++ tail) == (x, tail) with exact byte consumption, and
// every proper prefix of encode(x) yields an error (no value, no panic).

type engineD struct {
	cfg  *RunConfig
	rc   *Recorder
	rng  *rand.Rand
	fail int

	perKind  map[string]int64
	distinct map[uint64]bool
	cases    int64
	prefixes int64
}

var boundaryU64 = []uint64{0, 1, 2, 255, 256, 1<<31 - 1, 1 << 31, 1<<32 - 1, 1 << 32, 1<<63 - 1, 1 << 63, 1<<63 + 1, 1<<64 - 2, 1<<64 - 1}

func (e *engineD) u64() uint64 {
	switch e.rng.Intn(4) {
	case 0:
		return boundaryU64[e.rng.Intn(len(boundaryU64))]
	case 1:
		return uint64(e.rng.Intn(1000))
	default:
		return e.rng.Uint64()
	}
}

func (e *engineD) str(max int) string {
	n := 0
	switch e.rng.Intn(5) {
	case 0:
		n = 0
	case 1:
		n = 1
	case 2:
		n = e.rng.Intn(max + 1)
	default:
		n = e.rng.Intn(24)
	}
	if e.rng.Intn(40) == 0 {
		// now and then a long one, whatever the field: beyond the buffer of a
		// connection's reader, beyond 64 KiB
		n = 4000 + e.rng.Intn(66000)
	}
	b := make([]byte, n)
	for i := range b {
		b[i] = byte(e.rng.Intn(256))
	}
	return string(b)
}

func (e *engineD) data() []byte {
	switch e.rng.Intn(6) {
	case 0:
		return []byte{}
	case 1:
		return []byte(e.str(70000))
	default:
		return []byte(e.str(300))
	}
}

func (e *engineD) node(id uint64) raft.Node {
	return raft.Node{ID: id, Addr: e.str(40), Voter: e.rng.Intn(2) == 0, Data: e.str(60), Action: raft.Action(e.rng.Intn(256))}
}

func (e *engineD) config() raft.Config {
	c := raft.Config{Nodes: map[uint64]raft.Node{}, Index: e.u64(), Term: e.u64()}
	n := []int{0, 1, 2, 3, 5, 9}[e.rng.Intn(6)]
	for i := 0; i < n; i++ {
		id := e.u64()
		c.Nodes[id] = e.node(id)
	}
	return c
}

func (e *engineD) violation(rule, format string, a ...interface{}) {
	e.fail++
	if e.fail <= 20 {
		e.rc.emit(&ev.Rec{K: "assert", Note: "C18", Reason: rule, Err: fmt.Sprintf(format, a...)})
	}
}

// roundTrip checks one codec on one value. dec decodes from r and returns
// the value; eq compares.
func (e *engineD) roundTrip(kind string, enc []byte, dec func(r io.Reader) (interface{}, error), want interface{}, eq func(a, b interface{}) bool, nontrivial bool) {
	e.cases++
	e.perKind[kind]++
	if nontrivial {
		e.distinct[ev.Hash(append([]byte(kind+":"), enc...))] = true
	}
	tail := []byte(e.str(12))
	buf := append(append([]byte(nil), enc...), tail...)
	// half of the time through a buffered reader of the default size, which
	// is what a connection is read through
	var r io.Reader = bytes.NewReader(buf)
	if e.rng.Intn(2) == 0 {
		r = bufio.NewReader(r)
		e.perKind["(through bufio.Reader)"]++
	}
	var got interface{}
	var err error
	func() {
		defer func() {
			if v := recover(); v != nil {
				err = fmt.Errorf("panic: %v", v)
			}
		}()
		got, err = dec(r)
	}()
	if err != nil {
		e.violation("decode-fails:"+kind, "%s: decode(encode(x)) failed: %v; x = %s", kind, err, show(want))
		return
	}
	rest, _ := io.ReadAll(r)
	if !bytes.Equal(rest, tail) {
		e.violation("bytes-consumed:"+kind, "%s: decoding consumed %d bytes of an encoding of %d bytes (stream loses framing); x = %s", kind, len(buf)-len(rest), len(enc), show(want))
		return
	}
	if !eq(got, want) {
		e.violation("value-changed:"+kind, "%s: decode(encode(x)) = %s, x = %s", kind, show(got), show(want))
		return
	}
	// every proper prefix is an error
	var cuts []int
	n := len(enc)
	for i := 0; i < n && i < 48; i++ {
		cuts = append(cuts, i)
	}
	for i := 0; i < 24 && n > 48; i++ {
		cuts = append(cuts, 48+e.rng.Intn(n-48))
	}
	for i := n - 12; i < n; i++ {
		if i >= 48 {
			cuts = append(cuts, i)
		}
	}
	for _, c := range cuts {
		e.prefixes++
		var perr error
		var pv interface{}
		func() {
			defer func() {
				if v := recover(); v != nil {
					perr = nil
					pv = fmt.Sprintf("PANIC %v", v)
				}
			}()
			pv, perr = dec(bytes.NewReader(enc[:c]))
		}()
		if perr == nil {
			e.violation("truncated-encoding-accepted:"+kind, "%s: the first %d of %d bytes decode without error to %s; x = %s", kind, c, n, show(pv), show(want))
			return
		}
	}
}

func show(v interface{}) string {
	s := fmt.Sprintf("%+v", v)
	if len(s) > 300 {
		s = s[:300] + "..."
	}
	// generated strings are arbitrary bytes: keep reports printable
	b := []byte(s)
	for i, c := range b {
		if c < 0x20 || c > 0x7e {
			b[i] = '.'
		}
	}
	return string(b)
}

func deepEq(a, b interface{}) bool { return reflect.DeepEqual(a, b) }

func normMsg(m raft.VerifMsg) raft.VerifMsg {
	if m.Cfg != nil && len(m.Cfg.Nodes) == 0 {
		c := *m.Cfg
		c.Nodes = map[uint64]raft.Node{}
		m.Cfg = &c
	}
	return m
}

func msgEq(a, b interface{}) bool {
	x, y := normMsg(a.(raft.VerifMsg)), normMsg(b.(raft.VerifMsg))
	return reflect.DeepEqual(x, y)
}

func cfgEq(a, b raft.Config) bool {
	if a.Index != b.Index || a.Term != b.Term || len(a.Nodes) != len(b.Nodes) {
		return false
	}
	for id, n := range a.Nodes {
		if b.Nodes[id] != n {
			return false
		}
	}
	return true
}

func replEq(a, b raft.Replication) bool {
	if a.ID != b.ID || a.MatchIndex != b.MatchIndex || a.ErrMessage != b.ErrMessage || a.Round != b.Round {
		return false
	}
	if (a.Unreachable == nil) != (b.Unreachable == nil) {
		return false
	}
	if a.Unreachable != nil && !a.Unreachable.Equal(*b.Unreachable) {
		return false
	}
	if (a.Err == nil) != (b.Err == nil) {
		return false
	}
	if a.Err != nil && a.Err.Error() != b.Err.Error() {
		return false
	}
	return true
}

func infoEq(a, b raft.Info) bool {
	if a.CID != b.CID || a.NID != b.NID || a.Addr != b.Addr || a.Term != b.Term || a.State != b.State || a.Leader != b.Leader ||
		a.SnapshotIndex != b.SnapshotIndex || a.FirstLogIndex != b.FirstLogIndex || a.LastLogIndex != b.LastLogIndex ||
		a.LastLogTerm != b.LastLogTerm || a.Committed != b.Committed || a.LastApplied != b.LastApplied {
		return false
	}
	if !cfgEq(a.Configs.Committed, b.Configs.Committed) || !cfgEq(a.Configs.Latest, b.Configs.Latest) {
		return false
	}
	if len(a.Followers) != len(b.Followers) {
		return false
	}
	for id, f := range a.Followers {
		g, ok := b.Followers[id]
		if !ok || !replEq(f, g) {
			return false
		}
	}
	return true
}

func (e *engineD) replication(id uint64) raft.Replication {
	r := raft.Replication{ID: id, MatchIndex: e.u64(), Round: e.u64()}
	if e.rng.Intn(2) == 0 {
		// any instant time.Now() can produce
		t := time.Unix(0, 1+e.rng.Int63n(1<<62))
		r.Unreachable = &t
	}
	if e.rng.Intn(2) == 0 {
		r.ErrMessage = e.str(80)
		if r.ErrMessage != "" {
			r.Err = errors.New(r.ErrMessage)
		}
	}
	return r
}

func (e *engineD) info() raft.Info {
	i := raft.Info{CID: e.u64(), NID: e.u64(), Addr: e.str(40), Term: e.u64(), State: raft.State(e.rng.Intn(256)), Leader: e.u64(),
		SnapshotIndex: e.u64(), FirstLogIndex: e.u64(), LastLogIndex: e.u64(), LastLogTerm: e.u64(), Committed: e.u64(), LastApplied: e.u64(),
		Configs: raft.Configs{Committed: e.config(), Latest: e.config()}}
	n := []int{0, 0, 1, 2, 4}[e.rng.Intn(5)]
	if n > 0 {
		i.Followers = map[uint64]raft.Replication{}
		for k := 0; k < n; k++ {
			id := e.u64()
			i.Followers[id] = e.replication(id)
		}
	}
	return i
}

var resultNames = []string{"success", "identityMismatch", "staleTerm", "alreadyVoted", "leaderKnown", "logNotUptodate", "prevEntryNotFound", "prevTermMismatch", "nonVoter", "readErr", "unexpectedErr"}
var msgKinds = []string{"identity", "vote", "append", "installSnap", "timeoutNow"}

func runEngineD(cfg *RunConfig, rc *Recorder, res *Result) error {
	e := &engineD{cfg: cfg, rc: rc, rng: rand.New(rand.NewSource(cfg.Seed)), perKind: map[string]int64{}, distinct: map[uint64]bool{}}
	n := cfg.paramInt("values", 20000)
	for i := 0; i < n && e.fail == 0; i++ {
		e.oneValue(i)
	}
	// persisted 64-bit values
	e.valueFiles(cfg.paramInt("dirs", 40))
	for k, v := range e.perKind {
		rc.emit(&ev.Rec{K: "logfs-op", Op: "codec:" + k, Cnt: v})
	}
	rc.emit(&ev.Rec{K: "logfs-op", Op: "truncated-prefixes-tried", Cnt: e.prefixes})
	rc.emit(&ev.Rec{K: "case-summary", Cnt: e.cases, Pos: int64(len(e.distinct))})
	res.Counters["values"] = e.cases
	return nil
}

func (e *engineD) oneValue(i int) {
	switch i % 12 {
	case 0: // log entry
		x := raft.VerifEntry{Index: e.u64(), Term: e.u64(), Typ: uint8(e.rng.Intn(256)), Data: e.data()}
		x.Hash = ev.Hash(x.Data)
		enc := raft.VerifEncodeEntry(x)
		e.roundTrip("entry", enc, func(r io.Reader) (interface{}, error) { return raft.VerifDecodeEntry(r) }, x, func(a, b interface{}) bool {
			p, q := a.(raft.VerifEntry), b.(raft.VerifEntry)
			return p.Index == q.Index && p.Term == q.Term && p.Typ == q.Typ && bytes.Equal(p.Data, q.Data)
		}, x.Index != 0 || len(x.Data) > 0)
	case 1, 2: // request
		kind := msgKinds[e.rng.Intn(len(msgKinds))]
		m := raft.VerifMsg{Kind: kind, Term: e.u64(), Src: e.u64()}
		switch kind {
		case "identity":
			m.A, m.B = e.u64(), e.u64()
		case "vote":
			m.A, m.B, m.Xfer = e.u64(), e.u64(), e.rng.Intn(2) == 0
		case "append":
			m.A, m.B, m.C, m.N = e.u64(), e.u64(), e.u64(), e.u64()
		case "installSnap":
			m.A, m.B, m.C = e.u64(), e.u64(), uint64(e.rng.Int63())
			c := e.config()
			m.Cfg = &c
		}
		enc, err := raft.VerifEncodeReq(m, false)
		if err != nil {
			e.violation("encode-fails:req", "%s request: %v", kind, err)
			return
		}
		e.roundTrip("req:"+kind, enc, func(r io.Reader) (interface{}, error) { return raft.VerifDecodeReq(kind, r) }, m, msgEq, true)
	case 3, 4: // response
		kind := msgKinds[e.rng.Intn(len(msgKinds))]
		m := raft.VerifMsg{Kind: kind, Term: e.u64(), Result: resultNames[e.rng.Intn(len(resultNames))]}
		if m.Result == "unexpectedErr" {
			m.ErrMsg = e.str(100)
			if e.rng.Intn(2) == 0 {
				m.ErrOp = "op" + e.str(20)
			}
		}
		if kind == "append" {
			m.RespLast = e.u64()
		}
		enc, err := raft.VerifEncodeResp(m)
		if err != nil {
			e.violation("encode-fails:resp", "%s response: %v", kind, err)
			return
		}
		e.roundTrip("resp:"+kind, enc, func(r io.Reader) (interface{}, error) { return raft.VerifDecodeResp(kind, r) }, m, msgEq, true)
	case 5: // node
		x := e.node(e.u64())
		e.roundTrip("node", raft.VerifEncodeNode(x), func(r io.Reader) (interface{}, error) { return raft.VerifDecodeNode(r) }, x, deepEq, true)
	case 6: // configuration as a log entry
		c := e.config()
		ent := raft.VerifConfigEntry(c)
		enc := raft.VerifEncodeEntry(ent)
		e.roundTrip("config", enc, func(r io.Reader) (interface{}, error) {
			de, err := raft.VerifDecodeEntry(r)
			if err != nil {
				return nil, err
			}
			return raft.VerifDecodeConfig(de)
		}, c, func(a, b interface{}) bool { return cfgEq(a.(raft.Config), b.(raft.Config)) }, true)
	case 7: // snapshot label
		idx, term, c, size := e.u64(), e.u64(), e.config(), e.rng.Int63()
		enc, err := raft.VerifEncodeSnapMeta(idx, term, c, size)
		if err != nil {
			e.violation("encode-fails:snapmeta", "%v", err)
			return
		}
		type sm struct {
			I, T uint64
			C    raft.Config
			S    int64
		}
		e.roundTrip("snapmeta", enc, func(r io.Reader) (interface{}, error) {
			i2, t2, c2, s2, err := raft.VerifDecodeSnapMeta(r)
			return sm{i2, t2, c2, s2}, err
		}, sm{idx, term, c, size}, func(a, b interface{}) bool {
			p, q := a.(sm), b.(sm)
			return p.I == q.I && p.T == q.T && p.S == q.S && cfgEq(p.C, q.C)
		}, true)
	case 8: // status report
		x := e.info()
		enc, err := raft.VerifEncodeInfo(x)
		if err != nil {
			e.violation("encode-fails:info", "%v", err)
			return
		}
		e.roundTrip("info", enc, func(r io.Reader) (interface{}, error) { return raft.VerifDecodeInfo(r) }, x,
			func(a, b interface{}) bool { return infoEq(a.(raft.Info), b.(raft.Info)) }, true)
	case 9: // replication status
		x := e.replication(e.u64())
		enc, err := raft.VerifEncodeReplication(x)
		if err != nil {
			e.violation("encode-fails:replication", "%v", err)
			return
		}
		e.roundTrip("replication", enc, func(r io.Reader) (interface{}, error) { return raft.VerifDecodeReplication(r) }, x,
			func(a, b interface{}) bool { return replEq(a.(raft.Replication), b.(raft.Replication)) }, true)
	default: // admin task responses
		e.taskResp()
	}
}

// taskResp: results survive; not-leader (hint, lost), in-progress, sentinel
// and not-ready errors are recognisable by kind or equality.
func (e *engineD) taskResp() {
	type tc struct {
		task   string
		result interface{}
	}
	sent := raft.VerifSentinels()
	var names []string
	for k := range sent {
		names = append(names, k)
	}
	// deterministic order
	for i := 1; i < len(names); i++ {
		for j := i; j > 0 && names[j-1] > names[j]; j-- {
			names[j-1], names[j] = names[j], names[j-1]
		}
	}
	var c tc
	switch e.rng.Intn(9) {
	case 0:
		c = tc{"info", e.info()}
	case 1:
		c = tc{"waitForStableConfig", e.config()}
	case 2:
		c = tc{"takeSnapshot", e.u64()}
	case 3:
		c = tc{[]string{"changeConfig", "transferLdr"}[e.rng.Intn(2)], nil}
	case 4:
		nd := e.node(e.u64())
		if e.rng.Intn(4) == 0 {
			nd = raft.Node{}
		}
		c = tc{[]string{"info", "changeConfig", "waitForStableConfig", "takeSnapshot", "transferLdr"}[e.rng.Intn(5)], raft.NotLeaderError{Leader: nd, Lost: e.rng.Intn(2) == 0}}
	case 5:
		c = tc{[]string{"changeConfig", "takeSnapshot", "transferLdr"}[e.rng.Intn(3)], raft.InProgressError(e.str(30))}
	default:
		c = tc{[]string{"info", "changeConfig", "waitForStableConfig", "takeSnapshot", "transferLdr"}[e.rng.Intn(5)], sent[names[e.rng.Intn(len(names))]]}
	}
	enc, err := raft.VerifEncodeTaskResp(c.result)
	if err != nil {
		e.violation("encode-fails:taskresp", "%v (%T)", err, c.result)
		return
	}
	type out struct {
		v   interface{}
		err error
	}
	e.roundTrip("taskresp:"+fmt.Sprintf("%T", c.result), enc, func(r io.Reader) (interface{}, error) {
		v, derr := raft.VerifDecodeTaskResp(c.task, r)
		if derr != nil {
			// a decoded *task error* is a value here; only stream errors are errors
			if isStreamErr(derr) {
				return nil, derr
			}
			return out{nil, derr}, nil
		}
		return out{v, nil}, nil
	}, c, func(a, b interface{}) bool {
		got, want := a.(out), b.(tc)
		switch w := want.result.(type) {
		case nil:
			return got.err == nil && got.v == nil
		case uint64:
			v, ok := got.v.(uint64)
			return got.err == nil && ok && v == w
		case raft.Config:
			v, ok := got.v.(raft.Config)
			return got.err == nil && ok && cfgEq(v, w)
		case raft.Info:
			v, ok := got.v.(raft.Info)
			return got.err == nil && ok && infoEq(v, w)
		case raft.NotLeaderError:
			v, ok := got.err.(raft.NotLeaderError)
			return ok && v == w
		case raft.InProgressError:
			// recognisable by kind (the property does not ask for the text:
			// the decoded value wraps the whole message once more)
			_, ok := got.err.(raft.InProgressError)
			return ok
		case error:
			return got.err == w // sentinels: by equality
		}
		return false
	}, true)
}

func isStreamErr(err error) bool {
	return err == io.EOF || err == io.ErrUnexpectedEOF || strings.Contains(err.Error(), "unexpected EOF")
}

// valueFiles: persisted cluster id, node id, term and vote read back exactly
// for every 64-bit value (through the public API: SetIdentity + New; a vote
// request carrying the term, then restart).
func (e *engineD) valueFiles(n int) {
	base := filepath.Join(e.cfg.Scratch, "vals")
	for i := 0; i < n && e.fail == 0; i++ {
		dir := filepath.Join(base, fmt.Sprintf("d%d", i))
		_ = os.MkdirAll(dir, 0700)
		cid, nid := e.u64(), e.u64()
		if cid == 0 {
			cid = 1
		}
		if nid == 0 {
			nid = 1
		}
		e.cases++
		e.perKind["identity-file"]++
		e.distinct[ev.Hash([]byte(fmt.Sprintf("id:%d:%d", cid, nid)))] = true
		if err := raft.SetIdentity(dir, cid, nid); err != nil {
			e.violation("identity-not-stored", "SetIdentity(%d, %d): %v", cid, nid, err)
			return
		}
		opt := raft.Options{HeartbeatTimeout: time.Hour, PromoteThreshold: time.Hour, Bandwidth: 1 << 20, LogSegmentSize: 4096, SnapshotsRetain: 1}
		r, err := raft.New(opt, newRecFSM(e.rc, dir), dir)
		if err != nil {
			e.violation("identity-not-read-back", "cluster id %d / node id %d were stored, but New on that directory fails: %v", cid, nid, err)
			return
		}
		if r.CID() != cid || r.NID() != nid {
			e.violation("identity-changed", "stored identity (%d, %d), read back (%d, %d)", cid, nid, r.CID(), r.NID())
			return
		}
		// setting it again: same values accepted, others refused
		if err := raft.SetIdentity(dir, cid, nid); err != nil {
			e.violation("identity-reset-same", "SetIdentity with the same values: %v", err)
		}
		if err := raft.SetIdentity(dir, cid^1|2, nid); err != raft.ErrIdentityAlreadySet {
			e.violation("identity-overwritten", "SetIdentity with another cluster id on a directory that has one: %v", err)
		}
		// term and vote: a candidate asks for a vote in term T; the node persists
		// (T, candidate); after a restart both read back exactly
		term, cand := e.u64(), e.u64()
		if term == 0 {
			term = 1
		}
		if cand == 0 || cand == nid {
			cand = nid ^ 0x55
			if cand == 0 {
				cand = 7
			}
		}
		e.cases++
		e.perKind["term-vote-file"]++
		e.distinct[ev.Hash([]byte(fmt.Sprintf("tv:%d:%d", term, cand)))] = true
		nw := memnet.New(int64(i))
		addr := fmt.Sprintf("v%d:1", i)
		lis := nw.Listen(addr, "node")
		done := make(chan error, 1)
		go func() { done <- r.Serve(lis) }()
		p, _, err := wireDial(nw, "wire", cand, addr, cid, nid, 5*time.Second)
		if err != nil {
			e.violation("harness", "cannot reach the node under test: %v", err)
			return
		}
		resp, err := p.call(raft.VerifMsg{Kind: "vote", Term: term, Src: cand, A: 0, B: 0}, nil, 5*time.Second)
		p.close()
		if err != nil {
			e.violation("vote-request-failed", "vote request with term %d from %d: %v", term, cand, err)
			return
		}
		ctx, cancel := context.WithTimeout(context.Background(), 20*time.Second)
		_ = r.Shutdown(ctx)
		cancel()
		<-done
		r2, err := raft.New(opt, newRecFSM(e.rc, dir), dir)
		if err != nil {
			e.violation("term-vote-not-read-back", "term %d / vote %d were persisted (reply %s, term %d), but New on that directory fails: %v", term, cand, resp.Result, resp.Term, err)
			return
		}
		st := r2.VerifState()
		if resp.Result == "success" && (st.Term != term || st.Vote != cand) {
			e.violation("term-vote-changed", "granted vote (term %d, candidate %d) reads back as (term %d, vote %d)", term, cand, st.Term, st.Vote)
			return
		}
		if st.Term != resp.Term {
			e.violation("term-vote-changed", "replied term %d reads back as %d", resp.Term, st.Term)
		}
	}
}
