package main

import (
	"io"
	"math/rand"
	"os"
	"path/filepath"
	"runtime"
	"strings"
	"sync"
	"time"

	"verif/ev"
)

// Points implements the perturbation / ordering / crash side of the hooks.
type Points struct {
	rc *Recorder

	mu     sync.Mutex
	rng    *rand.Rand
	counts map[string]map[string]int // dir -> point -> occurrences

	// perturbation policy
	delayProb float64                  // probability of a delay at a point
	delayMax  time.Duration            // upper bound of a delay
	weights   map[string]float64       // per point multiplier of delayProb
	holds     map[string]chan struct{} // "dir|point" -> released by closing
	holdHit   map[string]chan struct{} // closed when a goroutine arrives at a hold

	// crash plan: at most one pending per dir
	crashAt map[string]*crashPlan
	onCrash func(dir, image, point string, occ int)

	logPoints bool // emit a "point" event for every occurrence (enumeration engines)

	freezing map[string]bool          // a crash of this node is being taken: its goroutines stop at their next point
	slow     map[string]time.Duration // "dir|point" -> forced delay

	fsMu sync.Map // dir -> *sync.Mutex held while a snapshot is being published
}

type crashPlan struct {
	point string
	occ   int // occurrence number (1-based) of point in this dir; 0 = next
}

func newPoints(rc *Recorder, seed int64) *Points {
	return &Points{
		rc: rc, rng: rand.New(rand.NewSource(seed)),
		counts: map[string]map[string]int{}, weights: map[string]float64{},
		holds: map[string]chan struct{}{}, holdHit: map[string]chan struct{}{},
		crashAt: map[string]*crashPlan{}, freezing: map[string]bool{}, slow: map[string]time.Duration{},
	}
}

func (p *Points) fsLock(dir string) *sync.Mutex {
	m, _ := p.fsMu.LoadOrStore(dir, &sync.Mutex{})
	return m.(*sync.Mutex)
}

// hold makes the next goroutine reaching point in dir block until release.
// The returned channel is closed when a goroutine has arrived.
func (p *Points) hold(dir, point string) <-chan struct{} {
	p.mu.Lock()
	defer p.mu.Unlock()
	k := dir + "|" + point
	p.holds[k] = make(chan struct{})
	hit := make(chan struct{})
	p.holdHit[k] = hit
	return hit
}

func (p *Points) release(dir, point string) {
	p.mu.Lock()
	defer p.mu.Unlock()
	k := dir + "|" + point
	if ch := p.holds[k]; ch != nil {
		close(ch)
		delete(p.holds, k)
	}
}

func (p *Points) releaseAll() {
	p.mu.Lock()
	defer p.mu.Unlock()
	for k, ch := range p.holds {
		close(ch)
		delete(p.holds, k)
	}
}

// planCrash arms a crash of the node owning dir at the occ-th future
// occurrence of point ("*" = any point).
func (p *Points) planCrash(dir, point string, occ int) {
	p.mu.Lock()
	defer p.mu.Unlock()
	base := 0
	if point != "*" {
		base = p.counts[dir][point]
	}
	p.crashAt[dir] = &crashPlan{point: point, occ: base + occ}
}

func (p *Points) cancelCrash(dir string) {
	p.mu.Lock()
	defer p.mu.Unlock()
	delete(p.crashAt, dir)
}

func (p *Points) count(dir, point string) int {
	p.mu.Lock()
	defer p.mu.Unlock()
	return p.counts[dir][point]
}

// point is installed as raft.VerifPoint (and, with the log directory mapped
// to its parent, as log.VerifPoint).
func (p *Points) point(dir, name string) {
	p.mu.Lock()
	frozen := p.freezing[dir]
	p.mu.Unlock()
	if frozen || p.rc.isDead(dir) {
		// a "crashed" incarnation: stop its goroutines at the first point
		// they reach (they can no longer affect anyone: cut off the network,
		// events dropped, its directory has been copied)
		select {}
	}
	switch name {
	case "snap.beforePublish":
		p.fsLock(dir).Lock()
	case "snap.published":
		defer p.fsLock(dir).Unlock()
		p.rc.snapMeta(dir)
	}

	p.mu.Lock()
	m := p.counts[dir]
	if m == nil {
		m = map[string]int{}
		p.counts[dir] = m
	}
	m[name]++
	occ := m[name]
	var crash bool
	if cp := p.crashAt[dir]; cp != nil {
		if cp.point == "*" {
			cp.occ--
			crash = cp.occ <= 0
		} else if cp.point == name && occ >= cp.occ {
			crash = true
		}
		if crash {
			delete(p.crashAt, dir)
		}
	}
	var holdCh chan struct{}
	k := dir + "|" + name
	if ch := p.holds[k]; ch != nil {
		holdCh = ch
		if hit := p.holdHit[k]; hit != nil {
			close(hit)
			delete(p.holdHit, k)
		}
	}
	var sleep time.Duration
	var yield bool
	if d, ok := p.slow[k]; ok && !crash && holdCh == nil {
		sleep = d
	}
	if !crash && holdCh == nil && sleep == 0 && p.delayProb > 0 {
		pr := p.delayProb
		if w, ok := p.weights[name]; ok {
			pr *= w
		}
		if p.rng.Float64() < pr {
			if p.rng.Intn(3) == 0 {
				yield = true
			} else {
				sleep = time.Duration(p.rng.Int63n(int64(p.delayMax) + 1))
			}
		}
	}
	logIt := p.logPoints
	p.mu.Unlock()

	if logIt {
		p.rc.emitNode(dir, &ev.Rec{K: "point", Point: name, Occ: occ})
	}
	if crash {
		// the kill lands "now": every other goroutine of the node stops at the
		// next point it reaches (so no acknowledgement is recorded after the
		// image was taken); give those that are between two points a moment
		p.mu.Lock()
		p.freezing[dir] = true
		p.mu.Unlock()
		time.Sleep(3 * time.Millisecond)
		p.doCrash(dir, name, occ)
		select {}
	}
	if holdCh != nil {
		<-holdCh
	}
	if yield {
		runtime.Gosched()
	} else if sleep > 0 {
		time.Sleep(sleep)
	}
}

// doCrash takes the kill -9 image of dir: everything written through
// write/rename or through the shared mappings is in the page cache, so a
// copy of the directory is exactly what a restarted process would find.
func (p *Points) doCrash(dir, name string, occ int) {
	inPublish := name == "snap.beforePublish" || name == "snap.renamed" || name == "snap.published"
	locked := false
	if !inPublish {
		// a snapshot being published finishes first - unless its goroutine is
		// itself frozen in there: then the kill lands in the middle of it
		for i := 0; i < 50 && !locked; i++ {
			if locked = p.fsLock(dir).TryLock(); !locked {
				time.Sleep(time.Millisecond)
			}
		}
	}
	image := dir + ".img" + time.Now().Format("150405.000000")
	err := copyDir(dir, image)
	if locked {
		p.fsLock(dir).Unlock()
	}
	r := &ev.Rec{K: "crash", Point: name, Occ: occ, Dir: image}
	if err != nil {
		r.Err = err.Error()
	}
	// the crash record is the last record of this incarnation
	n := p.rc.lookup(dir)
	if n != nil {
		r.Cid, r.Nid, r.Inc = n.cid, n.nid, n.inc
	}
	p.rc.w.Emit(r, func(int64) { p.rc.markDead(dir) })
	if p.onCrash != nil {
		p.onCrash(dir, image, name, occ)
	}
}

// copyDir copies a storage directory, leaving out the lock file (the
// library documents that the operator clears it after a crash).
func copyDir(src, dst string) error {
	return filepath.Walk(src, func(path string, info os.FileInfo, err error) error {
		if err != nil {
			if os.IsNotExist(err) {
				return nil
			}
			return err
		}
		rel, _ := filepath.Rel(src, path)
		target := filepath.Join(dst, rel)
		if info.IsDir() {
			return os.MkdirAll(target, 0700)
		}
		base := filepath.Base(path)
		if rel == "lock" || (strings.HasPrefix(base, "lock") && strings.HasSuffix(base, ".tmp")) {
			return nil
		}
		in, err := os.Open(path)
		if err != nil {
			if os.IsNotExist(err) {
				return nil
			}
			return err
		}
		defer in.Close()
		out, err := os.OpenFile(target, os.O_CREATE|os.O_WRONLY|os.O_TRUNC, 0600)
		if err != nil {
			return err
		}
		if _, err = io.Copy(out, in); err != nil {
			out.Close()
			return err
		}
		return out.Close()
	})
}

// setSlow forces a delay at point in dir (0 = off).
func (p *Points) setSlow(dir, point string, d time.Duration) {
	p.mu.Lock()
	defer p.mu.Unlock()
	if d == 0 {
		delete(p.slow, dir+"|"+point)
	} else {
		p.slow[dir+"|"+point] = d
	}
}
