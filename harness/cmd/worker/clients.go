package main

import (
	"fmt"
	"net"
	"strings"
	"sync/atomic"
	"time"

	"github.com/santhosh-tekuri/raft"

	"verif/ev"
)

// client operations -----------------------------------------------------------

type opResult struct {
	ok      bool   // completed with success
	open    bool   // never returned (node went away)
	kind    string // error kind
	lost    bool
	pos     int64
	readLen int64
	last    string
}

var updateSeq int64

// fsmOp submits one FSM task to n and records call and return at the API boundary.
func (c *Cluster) fsmOp(client int, n *Node, op string) opResult {
	return c.fsmOpPad(client, n, op, 0)
}

// fsmOpPad is fsmOp with update commands padded to about pad bytes.
func (c *Cluster) fsmOpPad(client int, n *Node, op string, pad int) opResult {
	oid := c.nextOp()
	var t raft.FSMTask
	call := &ev.Rec{K: "client-call", Cl: client, Op: op, OpID: oid}
	switch op {
	case "update":
		id := fmt.Sprintf("c%d.%d.%d", c.cid, client, atomic.AddInt64(&updateSeq, 1))
		if pad > len(id)+1 {
			id += "~" + strings.Repeat("x", pad-len(id)-1)
		}
		call.Val = id
		t = raft.UpdateFSM([]byte(id))
	case "read":
		t = raft.ReadFSM("r")
	case "dirty":
		t = raft.DirtyReadFSM("r")
	case "barrier":
		t = raft.BarrierFSM()
	default:
		panic("bad op " + op)
	}
	c.rc.emitNode(n.dir, call)
	if !n.submitFSM(t) {
		// never reached the node: definitely not executed
		c.rc.emitNode(n.dir, &ev.Rec{K: "client-ret", Cl: client, Op: op, OpID: oid, Kind: "notsubmitted"})
		return opResult{kind: "notsubmitted"}
	}
	tt := c.track(t, n, oid, op)
	if !n.wait(t) {
		return opResult{open: true}
	}
	tt.done = true
	ret := &ev.Rec{K: "client-ret", Cl: client, Op: op, OpID: oid, Val: call.Val}
	res := opResult{}
	if err := t.Err(); err != nil {
		ret.Kind, ret.Lost, ret.Note = errKind(err)
		res.kind, res.lost = ret.Kind, ret.Lost
	} else {
		res.ok = true
		ret.Kind = "ok"
		switch v := t.Result().(type) {
		case int:
			ret.Pos = int64(v)
			res.pos = int64(v)
		case ReadResult:
			ret.Cnt, ret.Last, ret.H = int64(v.Len), v.Last, v.Roll
			res.readLen, res.last = int64(v.Len), v.Last
		case nil:
		default:
			ret.Note = fmt.Sprintf("unexpected result %T", v)
		}
	}
	c.rc.emitNode(n.dir, ret)
	return res
}

// admin operations ------------------------------------------------------------

func (c *Cluster) adminRet(n *Node, op string, oid int64, t raft.Task, extra func(*ev.Rec)) error {
	ret := &ev.Rec{K: "admin-ret", Op: op, OpID: oid}
	err := t.Err()
	if err != nil {
		ret.Kind, ret.Lost, ret.Note = errKind(err)
		ret.Err = err.Error()
	} else {
		ret.Kind = "ok"
	}
	if extra != nil {
		extra(ret)
	}
	c.rc.emitNode(n.dir, ret)
	return err
}

// takeSnapshot issues TakeSnapshot on n.
func (c *Cluster) takeSnapshot(n *Node, threshold uint64) (uint64, error) {
	oid := c.nextOp()
	t := raft.TakeSnapshot(threshold)
	c.rc.emitNode(n.dir, &ev.Rec{K: "admin-call", Op: "snapshot", OpID: oid, Idx: threshold})
	if !n.submitTask(t) {
		return 0, fmt.Errorf("gone")
	}
	c.track(t, n, oid, "snapshot")
	if !n.wait(t) {
		return 0, fmt.Errorf("gone")
	}
	var idx uint64
	err := c.adminRet(n, "snapshot", oid, t, func(r *ev.Rec) {
		if v, ok := t.Result().(uint64); ok {
			idx = v
			r.Idx = v
		}
	})
	return idx, err
}

// transfer issues TransferLeadership on n.
func (c *Cluster) transfer(n *Node, target uint64, timeout time.Duration) error {
	oid := c.nextOp()
	t := raft.TransferLeadership(target, timeout)
	c.rc.emitNode(n.dir, &ev.Rec{K: "admin-call", Op: "transfer", OpID: oid, Tgt: target})
	if !n.submitTask(t) {
		return fmt.Errorf("gone")
	}
	c.track(t, n, oid, "transfer")
	if !n.wait(t) {
		if !n.isGone() {
			// neither done nor refused a minute after it was submitted, with
			// a timeout of at most some dozen heartbeat timeouts
			c.rc.emitNode(n.dir, &ev.Rec{K: "transfer-unanswered", OpID: oid, Tgt: target, Note: timeout.String()})
		}
		return fmt.Errorf("gone")
	}
	err := c.adminRet(n, "transfer", oid, t, func(r *ev.Rec) { r.Tgt = target })
	if err != nil {
		// C16: a transfer that fails leaves the cluster able to keep or elect
		// a leader - the node that answered must at least still answer
		it := raft.GetInfo()
		kind := "responsive"
		if n.submitTaskWithin(it, 15*time.Second) {
			select {
			case <-it.Done():
			case <-n.gone:
				kind = "gone"
			case <-time.After(15 * time.Second):
				kind = "unresponsive"
			}
		} else if !n.isGone() {
			kind = "unresponsive"
		} else {
			kind = "gone"
		}
		c.rc.emitNode(n.dir, &ev.Rec{K: "after-failed-transfer", OpID: oid, Kind: kind, Err: err.Error()})
	}
	return err
}

// changeConfig reads the latest configuration from n (public GetInfo),
// applies mutate to it and submits it.
func (c *Cluster) changeConfig(n *Node, desc string, mutate func(conf *raft.Config) error) error {
	info, ok := n.info(false)
	if !ok {
		return fmt.Errorf("gone")
	}
	conf := info.Configs.Latest
	if err := mutate(&conf); err != nil {
		return err
	}
	return c.submitConfig(n, desc, conf)
}

func (c *Cluster) submitConfig(n *Node, desc string, conf raft.Config) error {
	oid := c.nextOp()
	t := raft.ChangeConfig(conf)
	c.rc.emitNode(n.dir, &ev.Rec{K: "admin-call", Op: "changeconfig", OpID: oid, Note: desc, Cfg: cvConfig(conf)})
	if !n.submitTask(t) {
		return fmt.Errorf("gone")
	}
	c.track(t, n, oid, "changeconfig")
	if !n.wait(t) {
		return fmt.Errorf("gone")
	}
	return c.adminRet(n, "changeconfig", oid, t, nil)
}

// waitStable issues WaitForStableConfig on n with a wall-clock watchdog.
func (c *Cluster) waitStable(n *Node, watchdog time.Duration) error {
	oid := c.nextOp()
	t := raft.WaitForStableConfig()
	c.rc.emitNode(n.dir, &ev.Rec{K: "admin-call", Op: "waitstable", OpID: oid})
	if !n.submitTask(t) {
		return fmt.Errorf("gone")
	}
	c.track(t, n, oid, "waitstable")
	select {
	case <-t.Done():
	case <-n.gone:
		return fmt.Errorf("gone")
	case <-time.After(watchdog):
		return fmt.Errorf("watchdog")
	}
	err := c.adminRet(n, "waitstable", oid, t, nil)
	if cfg, ok := t.Result().(raft.Config); ok && err == nil {
		// what the task returned belongs to the caller: a client prepares its
		// next request in it. The node's own configuration must not follow.
		const ghost = 9999
		cfg.Nodes[ghost] = raft.Node{ID: ghost, Addr: "ghost:1"}
		info, ok := n.info(false)
		delete(cfg.Nodes, ghost)
		rec := &ev.Rec{K: "result-ownership", Op: "waitstable", Kind: "private"}
		if ok {
			if _, shared := info.Configs.Latest.Nodes[ghost]; shared {
				rec.Kind = "shared"
			}
			c.rc.emitNode(n.dir, rec)
		}
	}
	return err
}

// background samplers ----------------------------------------------------------

// startInfoSampler polls GetInfo on every live node.
func (c *Cluster) startInfoSampler(every time.Duration) {
	c.bgWG.Add(1)
	go func() {
		defer c.bgWG.Done()
		tk := time.NewTicker(every)
		defer tk.Stop()
		round := 0
		for {
			select {
			case <-c.stopBg:
				return
			case <-tk.C:
				round++
				for _, n := range c.liveNodes() {
					n.info(true)
					if round%6 == 0 {
						c.remoteInfo(n)
					}
				}
			}
		}
	}()
}

// startTicker emits the logical clock.
func (c *Cluster) startTicker() {
	c.bgWG.Add(1)
	go func() {
		defer c.bgWG.Done()
		tk := time.NewTicker(c.hb / 4)
		defer tk.Stop()
		for {
			select {
			case <-c.stopBg:
				return
			case <-tk.C:
				c.rc.emit(&ev.Rec{K: "tick"})
			}
		}
	}()
}

func (c *Cluster) stopBackground() {
	close(c.stopBg)
	c.bgWG.Wait()
}

// remote status ------------------------------------------------------------------

// remoteInfo asks n for its status through the library's remote client (the
// wire codec and the server's task path) and compares it with the in-process
// report taken just before and just after; only if those two agree is the
// remote one expected to agree as well.
func (c *Cluster) remoteInfo(n *Node) {
	a, ok := n.info(false)
	if !ok {
		return
	}
	cl := raft.VerifNewClient(n.addr, func(network, address string, timeout time.Duration) (net.Conn, error) {
		return c.net.Dial("client", address, timeout)
	})
	r, err := cl.GetInfo()
	b, ok2 := n.info(false)
	rec := &ev.Rec{K: "remote-info"}
	switch {
	case err != nil:
		rec.Kind, rec.Err = "error", err.Error()
	case !ok2 || diffInfo(a, b) != "":
		rec.Kind = "unstable"
	default:
		if d := diffInfo(a, r); d != "" {
			rec.Kind, rec.Note = "differs", d
		} else {
			rec.Kind = "equal"
			if len(a.Followers) > 0 {
				rec.Cnt = int64(len(a.Followers))
			}
		}
	}
	c.rc.emitNode(n.dir, rec)
}

// diffInfo names the first field in which two status reports differ.
func diffInfo(a, b raft.Info) string {
	switch {
	case a.CID != b.CID || a.NID != b.NID || a.Addr != b.Addr:
		return fmt.Sprintf("identity %d/%d@%s vs %d/%d@%s", a.CID, a.NID, a.Addr, b.CID, b.NID, b.Addr)
	case a.Term != b.Term || a.State != b.State || a.Leader != b.Leader:
		return fmt.Sprintf("term/state/leader %d/%c/%d vs %d/%c/%d", a.Term, a.State, a.Leader, b.Term, b.State, b.Leader)
	case a.SnapshotIndex != b.SnapshotIndex || a.FirstLogIndex != b.FirstLogIndex || a.LastLogIndex != b.LastLogIndex || a.LastLogTerm != b.LastLogTerm:
		return fmt.Sprintf("log snapshot=%d first=%d last=%d/%d vs snapshot=%d first=%d last=%d/%d", a.SnapshotIndex, a.FirstLogIndex, a.LastLogIndex, a.LastLogTerm, b.SnapshotIndex, b.FirstLogIndex, b.LastLogIndex, b.LastLogTerm)
	case a.Committed != b.Committed || a.LastApplied != b.LastApplied:
		return fmt.Sprintf("committed/applied %d/%d vs %d/%d", a.Committed, a.LastApplied, b.Committed, b.LastApplied)
	}
	if x, y := fmt.Sprint(cvConfig(a.Configs.Latest)), fmt.Sprint(cvConfig(b.Configs.Latest)); x != y {
		return "latest configuration " + x + " vs " + y
	}
	if x, y := fmt.Sprint(cvConfig(a.Configs.Committed)), fmt.Sprint(cvConfig(b.Configs.Committed)); x != y {
		return "committed configuration " + x + " vs " + y
	}
	if len(a.Followers) != len(b.Followers) {
		return fmt.Sprintf("%d followers vs %d", len(a.Followers), len(b.Followers))
	}
	for id, fa := range a.Followers {
		fb, ok := b.Followers[id]
		if !ok {
			return fmt.Sprintf("follower %d missing", id)
		}
		ua, ub := int64(0), int64(0)
		if fa.Unreachable != nil {
			ua = fa.Unreachable.UnixNano()
		}
		if fb.Unreachable != nil {
			ub = fb.Unreachable.UnixNano()
		}
		if fa.ID != fb.ID || fa.MatchIndex != fb.MatchIndex || fa.Round != fb.Round || fa.ErrMessage != fb.ErrMessage || ua != ub || (fa.Err == nil) != (fb.Err == nil) {
			return fmt.Sprintf("follower %d: id=%d match=%d round=%d unreachable=%d err=%q vs id=%d match=%d round=%d unreachable=%d err=%q", id, fa.ID, fa.MatchIndex, fa.Round, ua, fa.ErrMessage, fb.ID, fb.MatchIndex, fb.Round, ub, fb.ErrMessage)
		}
	}
	return ""
}

// remoteClient returns the library's remote client for n, dialling through
// the in-memory network.
func (c *Cluster) remoteClient(n *Node) *raft.Client {
	return raft.VerifNewClient(n.addr, func(network, address string, timeout time.Duration) (net.Conn, error) {
		return c.net.Dial("client", address, timeout)
	})
}

// takeSnapshotRemote is takeSnapshot through the remote client.
func (c *Cluster) takeSnapshotRemote(n *Node, threshold uint64) {
	oid := c.nextOp()
	c.rc.emitNode(n.dir, &ev.Rec{K: "admin-call", Op: "snapshot", OpID: oid, Idx: threshold, Note: "remote"})
	idx, err := c.remoteClient(n).TakeSnapshot(threshold)
	ret := &ev.Rec{K: "admin-ret", Op: "snapshot", OpID: oid, Idx: idx, Kind: "ok"}
	if err != nil {
		ret.Kind, ret.Lost, ret.Note = errKind(err)
		ret.Err = err.Error()
		c.recognisable(n, err)
	}
	c.rc.emitNode(n.dir, ret)
}

// transferRemote is transfer through the remote client.
func (c *Cluster) transferRemote(n *Node, target uint64, timeout time.Duration) {
	oid := c.nextOp()
	c.rc.emitNode(n.dir, &ev.Rec{K: "admin-call", Op: "transfer", OpID: oid, Tgt: target, Note: "remote"})
	err := c.remoteClient(n).TransferLeadership(target, timeout)
	ret := &ev.Rec{K: "admin-ret", Op: "transfer", OpID: oid, Tgt: target, Kind: "ok"}
	if err != nil {
		ret.Kind, ret.Lost, ret.Note = errKind(err)
		ret.Err = err.Error()
		c.recognisable(n, err)
	}
	c.rc.emitNode(n.dir, ret)
}

// recognisable: an error that came back through the remote client and reads
// like one of the library's sentinel errors must be that sentinel (C18: a
// client recognises them by equality).
func (c *Cluster) recognisable(n *Node, err error) {
	for name, s := range raft.VerifSentinels() {
		if err != s && err.Error() == s.Error() {
			c.rc.emitNode(n.dir, &ev.Rec{K: "remote-error-unrecognisable", Note: name, Err: err.Error()})
		}
	}
	c.rc.emitNode(n.dir, &ev.Rec{K: "remote-error", Note: fmt.Sprintf("%T", err)})
}
