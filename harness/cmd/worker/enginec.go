package main

import (
	"bytes"
	"fmt"
	"math/rand"
	"os"
	"path/filepath"
	"sort"
	"strconv"
	"strings"
	"sync"

	rlog "github.com/santhosh-tekuri/raft/log"
	"github.com/santhosh-tekuri/raft/mmap"

	"verif/ev"
)

// Engine C: the log package alone against a reference model (C13), with
// crash images captured at every hook point inside its operations and
// reopened with the real code (C14).

type logModel struct {
	prev    uint64
	entries [][]byte // entries[i] is index prev+1+i
}

func (m *logModel) last() uint64 { return m.prev + uint64(len(m.entries)) }

func (m *logModel) get(i uint64) ([]byte, bool) {
	if i <= m.prev || i > m.last() {
		return nil, false
	}
	return m.entries[i-m.prev-1], true
}

func (m *logModel) clone() *logModel {
	c := &logModel{prev: m.prev, entries: make([][]byte, len(m.entries))}
	copy(c.entries, m.entries)
	return c
}

type engineC struct {
	cfg *RunConfig
	rc  *Recorder
	rng *rand.Rand
	res *Result

	dir     string // log directory
	imgBase string
	segSize int
	l       *rlog.Log
	m       *logModel
	fail    int

	crash bool // capture crash images (C14)
	// in-flight operation
	pre, post *logModel
	opName    string
	durableUp uint64 // indexes <= durableUp are covered by the last completed commit (and not removed since)
	postDurUp uint64 // same, in the post state of the in-flight operation

	// power-loss model: content of each file at its last completed flush
	durFiles         map[string][]byte
	images           int64
	plImages         int64
	pointsHit        map[string]int64
	opsDone          map[string]int64
	progs            int64
	maxImagesPerProg int
	imgInProg        int
	counter          int64
}

func (e *engineC) violation(prop, rule, format string, a ...interface{}) {
	e.fail++
	e.rc.emit(&ev.Rec{K: "assert", Note: prop, Reason: rule, Err: fmt.Sprintf(format, a...)})
}

func runEngineC(cfg *RunConfig, rc *Recorder, res *Result) error {
	e := &engineC{cfg: cfg, rc: rc, rng: rand.New(rand.NewSource(cfg.Seed)), res: res,
		durFiles: map[string][]byte{}, pointsHit: map[string]int64{}, opsDone: map[string]int64{}}
	e.crash = cfg.Scenario == "crash"
	e.imgBase = filepath.Join(cfg.Scratch, "img")
	nprog := cfg.paramInt("programs", 50)
	nops := cfg.paramInt("ops", 60)
	e.maxImagesPerProg = cfg.paramInt("maximg", 400)
	mmap.VerifQuarantine = true
	if e.crash {
		rlog.VerifPoint = func(dir, name string) { e.onPoint(name) }
		rlog.VerifDurable = func(dir string, prev uint64, n int) { e.onPoint("seg.sync.done") }
		mmap.VerifSynced = func(name string) {
			if b, err := os.ReadFile(name); err == nil {
				e.durFiles[name] = b
			}
		}
	}
	for p := 0; p < nprog && e.fail == 0; p++ {
		if err := e.program(p, nops); err != nil {
			return err
		}
		e.progs++
	}
	res.Counters["programs"] = e.progs
	res.Counters["images_kill"] = e.images
	res.Counters["images_powerloss"] = e.plImages
	for k, v := range e.pointsHit {
		res.Counters["point:"+k] = v
	}
	for k, v := range e.opsDone {
		res.Counters["op:"+k] = v
	}
	rc.emit(&ev.Rec{K: "logfs-summary", Cnt: e.progs, Note: fmt.Sprintf("programs=%d kill-images=%d powerloss-images=%d failures=%d", e.progs, e.images, e.plImages, e.fail)})
	for k, v := range e.pointsHit {
		rc.emit(&ev.Rec{K: "logfs-point", Point: k, Cnt: v})
	}
	for k, v := range e.opsDone {
		rc.emit(&ev.Rec{K: "logfs-op", Op: k, Cnt: v})
	}
	rc.emit(&ev.Rec{K: "logfs-op", Op: "images-kill", Cnt: e.images})
	rc.emit(&ev.Rec{K: "logfs-op", Op: "images-powerloss", Cnt: e.plImages})
	return nil
}

func (e *engineC) open() error {
	l, err := rlog.Open(e.dir, 0700, rlog.Options{FileMode: 0600, SegmentSize: e.segSize})
	if err != nil {
		return err
	}
	e.l = l
	return nil
}

func (e *engineC) payload(size int) []byte {
	e.counter++
	b := make([]byte, size)
	tag := []byte(fmt.Sprintf("#%d:", e.counter))
	for i := range b {
		b[i] = byte('a' + (int(e.counter)+i)%26)
	}
	copy(b, tag)
	return b
}

func (e *engineC) pickSize() int {
	fit := e.segSize - 24
	switch e.rng.Intn(14) {
	case 0:
		return 0
	case 1:
		return 1
	case 2:
		return fit // exactly fills an empty segment
	case 3:
		return fit - 1
	case 4:
		return fit + 1 // cannot fit an empty segment of the configured size
	case 5:
		return fit + 1 + e.rng.Intn(3*e.segSize)
	case 6:
		return fit / 2
	case 7:
		return fit/2 - 8
	default:
		return 1 + e.rng.Intn(fit/3+1)
	}
}

// pickIndex draws an index biased to segment boundaries and log ends.
func (e *engineC) pickIndex() uint64 {
	bs := e.boundaries()
	last := e.m.last()
	cands := []uint64{0, 1, e.m.prev, e.m.prev + 1, last, last + 1, last + 5}
	if e.m.prev > 0 {
		cands = append(cands, e.m.prev-1)
	}
	for _, b := range bs {
		cands = append(cands, b, b+1)
		if b > 0 {
			cands = append(cands, b-1)
		}
	}
	if e.rng.Intn(3) == 0 && last > e.m.prev {
		return e.m.prev + 1 + uint64(e.rng.Int63n(int64(last-e.m.prev)))
	}
	return cands[e.rng.Intn(len(cands))]
}

// boundaries returns the prev indexes of the segment files (from their names).
func (e *engineC) boundaries() []uint64 {
	m, _ := filepath.Glob(filepath.Join(e.dir, "*.log"))
	var bs []uint64
	for _, f := range m {
		v, err := strconv.ParseUint(strings.TrimSuffix(filepath.Base(f), ".log"), 10, 64)
		if err == nil {
			bs = append(bs, v)
		}
	}
	sort.Slice(bs, func(i, j int) bool { return bs[i] < bs[j] })
	return bs
}

func (e *engineC) begin(name string, post *logModel, postDur uint64) {
	e.opName = name
	e.pre = e.m
	e.post = post
	e.postDurUp = postDur
	e.opsDone[name]++
}

func (e *engineC) end() {
	e.m = e.post
	e.durableUp = e.postDurUp
	e.pre, e.post = nil, nil
	e.opName = ""
}

func (e *engineC) program(p int, nops int) error {
	e.dir = filepath.Join(e.cfg.Scratch, fmt.Sprintf("log%d", p))
	_ = os.RemoveAll(e.dir)
	e.segSize = []int{1024, 1024, 2048, 4096, 8192, 16384}[e.rng.Intn(6)]
	if v := e.cfg.paramInt("seg", 0); v > 0 {
		e.segSize = v
	}
	e.m = &logModel{}
	e.durableUp = 0
	e.durFiles = map[string][]byte{}
	e.imgInProg = 0
	e.begin("open", e.m, 0)
	if err := e.open(); err != nil {
		return fmt.Errorf("open: %v", err)
	}
	e.end()
	var trace []string
	segs0 := e.pointsHit["createSegment.synced"]
	defer func() {
		note := fmt.Sprintf("seg=%d ops: %s", e.segSize, strings.Join(trace, " "))
		rec := &ev.Rec{K: "logfs-program", Cnt: int64(p), H: ev.Hash([]byte(note)), Pos: int64(len(trace)), Idx: uint64(e.imgInProg)}
		if e.crash {
			rec.Occ = int(e.pointsHit["createSegment.synced"] - segs0)
		} else {
			rec.Occ = len(e.boundaries())
		}
		if e.fail > 0 || p < 2 {
			rec.Note = note
		}
		e.rc.emit(rec)
	}()
	for i := 0; i < nops && e.fail == 0; i++ {
		op := e.rng.Intn(100)
		switch {
		case op < 50: // append
			b := e.payload(e.pickSize())
			post := e.m.clone()
			post.entries = append(post.entries, b)
			e.begin("append", post, e.durableUp)
			err := e.l.Append(b)
			trace = append(trace, fmt.Sprintf("A%d", len(b)))
			if err != nil {
				e.post = e.pre // nothing changed
				if err != rlog.ErrExceedsSegmentSize {
					e.violation("C13", "append-error", "Append(%d bytes) failed: %v", len(b), err)
				} else if len(b) <= e.segSize-24 {
					e.violation("C13", "append-refused-although-it-fits", "Append(%d bytes) refused with ErrExceedsSegmentSize, segment size %d", len(b), e.segSize)
				}
				e.opsDone["append-refused"]++
			}
			e.end()
		case op < 58:
			e.begin("commit", e.m, e.m.last())
			if err := e.l.Commit(); err != nil {
				e.violation("C13", "commit-error", "Commit: %v", err)
			}
			trace = append(trace, "C")
			e.end()
		case op < 64:
			n := e.pickIndex()
			dur := e.durableUp
			if n > e.m.last() {
				n = e.m.last()
			}
			if n > dur {
				dur = n
			}
			e.begin("commitN", e.m, dur)
			if err := e.l.CommitN(n); err != nil {
				e.violation("C13", "commit-error", "CommitN(%d): %v", n, err)
			}
			trace = append(trace, fmt.Sprintf("CN%d", n))
			e.end()
		case op < 72: // remove from front
			i := e.pickIndex()
			if i > e.m.last() {
				i = e.m.last()
			}
			want := e.m.prev
			bs := e.boundaries()
			for _, b := range bs {
				if b <= i && b > want {
					want = b
				}
			}
			can := e.l.CanLTE(i)
			if can != want {
				e.violation("C13", "canLTE-mismatch", "CanLTE(%d) = %d, segment boundaries %v allow %d (prev %d last %d)", i, can, bs, want, e.m.prev, e.m.last())
			}
			post := e.m.clone()
			if want > post.prev {
				post.entries = post.entries[want-post.prev:]
				post.prev = want
			}
			// RemoveLTE commits implicitly
			e.begin("removeLTE", post, e.m.last())
			if err := e.l.RemoveLTE(i); err != nil {
				e.violation("C13", "removeLTE-error", "RemoveLTE(%d): %v", i, err)
			}
			trace = append(trace, fmt.Sprintf("RL%d", i))
			e.end()
		case op < 82: // remove from back
			i := e.pickIndex()
			post := e.m.clone()
			dur := e.m.last() // implicit commit
			if i <= e.m.last() {
				if i > e.m.prev {
					post.entries = post.entries[:i-e.m.prev-1]
				} else {
					post.entries = nil
					if i > 0 {
						post.prev = i - 1
					} else {
						post.prev = 0
					}
				}
				dur = post.last()
			}
			e.begin("removeGTE", post, dur)
			if err := e.l.RemoveGTE(i); err != nil {
				e.violation("C13", "removeGTE-error", "RemoveGTE(%d): %v", i, err)
			}
			trace = append(trace, fmt.Sprintf("RG%d", i))
			e.end()
		case op < 85: // reset
			x := e.pickIndex()
			post := &logModel{prev: x}
			e.begin("reset", post, x)
			if err := e.l.Reset(x); err != nil {
				e.violation("C13", "reset-error", "Reset(%d): %v", x, err)
			}
			trace = append(trace, fmt.Sprintf("RS%d", x))
			e.end()
		case op < 91: // close and reopen
			e.begin("close", e.m, e.m.last())
			if err := e.l.Close(); err != nil {
				e.violation("C13", "close-error", "Close: %v", err)
			}
			e.end()
			e.begin("open", e.m, e.m.last())
			if err := e.open(); err != nil {
				e.violation("C13", "reopen-error", "Open after Close: %v", err)
				return nil
			}
			trace = append(trace, "RO")
			e.end()
		default: // views with concurrent readers while the writer appends
			e.viewsUnderAppend(&trace)
		}
		if e.fail == 0 {
			e.compare(fmt.Sprintf("program %d after op %d (%s)", p, i, trace[len(trace)-1]))
		}
	}
	if e.fail == 0 {
		e.begin("close", e.m, e.m.last())
		if err := e.l.Close(); err != nil {
			e.violation("C13", "close-error", "Close: %v", err)
		}
		e.end()
	}
	return nil
}

// compare checks every read of the exported API against the model.
func (e *engineC) compare(where string) {
	l, m := e.l, e.m
	if l.PrevIndex() != m.prev || l.LastIndex() != m.last() || l.Count() != uint64(len(m.entries)) {
		e.violation("C13", "bounds-mismatch", "%s: prev/last/count = %d/%d/%d, model %d/%d/%d", where, l.PrevIndex(), l.LastIndex(), l.Count(), m.prev, m.last(), len(m.entries))
		return
	}
	for _, i := range []uint64{0, m.prev, m.prev + 1, m.last(), m.last() + 1} {
		want := i > m.prev && i <= m.last()
		if l.Contains(i) != want {
			e.violation("C13", "contains-mismatch", "%s: Contains(%d) = %v", where, i, !want)
		}
	}
	if m.prev > 0 {
		if _, err := l.Get(m.prev); err != rlog.ErrNotFound {
			e.violation("C13", "get-below-prev", "%s: Get(%d) at prev index returned %v, want ErrNotFound", where, m.prev, err)
		}
		below := uint64(e.rng.Intn(int(m.prev)))
		if _, err := l.Get(below); err != rlog.ErrNotFound {
			e.violation("C13", "get-below-prev", "%s: Get(%d) below prev index %d returned %v, want ErrNotFound", where, below, m.prev, err)
		}
		if len(m.entries) > 0 {
			// a range that starts in the removed part
			if _, err := l.GetN(m.prev, 2); err != rlog.ErrNotFound {
				e.violation("C13", "getN-below-prev", "%s: GetN(%d,2) starting at prev index returned %v, want ErrNotFound", where, m.prev, err)
			}
		}
		if v := l.ViewAt(below, m.last()); v != nil {
			e.violation("C13", "view-below-prev", "%s: ViewAt(%d,%d) starts below prev index %d but is not nil", where, below, m.last(), m.prev)
		}
	}
	if len(m.entries) > 0 {
		if v := l.ViewAt(m.last(), m.prev); m.last() > m.prev && v != nil {
			e.violation("C13", "view-inverted", "%s: ViewAt(%d,%d) is not nil", where, m.last(), m.prev)
		}
	}
	if v := l.View(); v == nil || v.PrevIndex() != m.prev || v.LastIndex() != m.last() || v.Count() != uint64(len(m.entries)) {
		e.violation("C13", "view-whole-mismatch", "%s: View() is not (%d,%d]", where, m.prev, m.last())
	} else if len(m.entries) > 0 {
		// an empty view in the middle, and a one-entry view: own bounds
		mid := m.prev + uint64(e.rng.Intn(len(m.entries)))
		if ev := l.ViewAt(mid, mid); ev == nil || ev.Count() != 0 || ev.Contains(mid) || ev.Contains(mid+1) {
			e.violation("C13", "view-empty-mismatch", "%s: ViewAt(%d,%d) is not an empty view", where, mid, mid)
		}
		ov := l.ViewAt(mid, mid+1)
		want, _ := m.get(mid + 1)
		if ov == nil || ov.Count() != 1 || !ov.Contains(mid+1) || ov.Contains(mid) || ov.Contains(mid+2) {
			e.violation("C13", "view-bounds-mismatch", "%s: ViewAt(%d,%d) bounds/contains wrong", where, mid, mid+1)
		} else {
			if b, err := ov.Get(mid + 1); err != nil || !bytes.Equal(b, want) {
				e.violation("C13", "view-get-mismatch", "%s: ViewAt(%d,%d).Get(%d) = %d bytes err %v, appended %d bytes", where, mid, mid+1, mid+1, len(b), err, len(want))
			}
			if _, err := ov.Get(mid); err != rlog.ErrNotFound {
				e.violation("C13", "view-get-below-prev", "%s: ViewAt(%d,%d).Get(%d) returned %v, want ErrNotFound", where, mid, mid+1, mid, err)
			}
		}
	}
	for i := m.prev + 1; i <= m.last(); i++ {
		b, err := l.Get(i)
		want, _ := m.get(i)
		if err != nil || !bytes.Equal(b, want) {
			e.violation("C13", "get-mismatch", "%s: Get(%d) = %d bytes %q.. err %v, appended %d bytes %q..", where, i, len(b), head(b), err, len(want), head(want))
			return
		}
	}
	// multi-entry reads, across segments
	if n := len(m.entries); n > 0 {
		for k := 0; k < 4; k++ {
			from := m.prev + 1 + uint64(e.rng.Intn(n))
			cnt := uint64(1 + e.rng.Intn(int(m.last()-from)+1))
			if k == 0 {
				from, cnt = m.prev+1, uint64(n)
			}
			bufs, err := l.GetN(from, cnt)
			if err != nil {
				e.violation("C13", "getN-error", "%s: GetN(%d,%d): %v", where, from, cnt, err)
				return
			}
			var got, want []byte
			for _, b := range bufs {
				got = append(got, b...)
			}
			for i := from; i < from+cnt; i++ {
				w, _ := m.get(i)
				want = append(want, w...)
			}
			if !bytes.Equal(got, want) {
				e.violation("C13", "getN-mismatch", "%s: GetN(%d,%d) returned %d bytes in %d buffers, model has %d bytes", where, from, cnt, len(got), len(bufs), len(want))
				return
			}
		}
	}
	e.opsDone["compare"]++
}

func head(b []byte) string {
	if len(b) > 12 {
		b = b[:12]
	}
	return string(b)
}

// viewsUnderAppend creates views and reads them from other goroutines while
// the writer keeps appending (the documented concurrent use).
func (e *engineC) viewsUnderAppend(trace *[]string) {
	m := e.m
	if len(m.entries) == 0 {
		*trace = append(*trace, "V0")
		return
	}
	type vw struct {
		v    *rlog.Log
		prev uint64
		last uint64
		want [][]byte
	}
	var views []vw
	for k := 0; k < 1+e.rng.Intn(3); k++ {
		p := m.prev + uint64(e.rng.Intn(len(m.entries)))
		l := p + uint64(e.rng.Intn(int(m.last()-p)+1))
		if k == 0 {
			p, l = m.prev, m.last()
		}
		v := e.l.ViewAt(p, l)
		if v == nil {
			e.violation("C13", "view-nil", "ViewAt(%d,%d) returned nil (prev %d last %d)", p, l, m.prev, m.last())
			return
		}
		w := vw{v: v, prev: p, last: l}
		for i := p + 1; i <= l; i++ {
			b, _ := m.get(i)
			w.want = append(w.want, b)
		}
		views = append(views, w)
	}
	stop := make(chan struct{})
	var wg sync.WaitGroup
	var mu sync.Mutex
	var bad string
	for _, w := range views {
		wg.Add(1)
		go func(w vw) {
			defer wg.Done()
			for round := 0; ; round++ {
				select {
				case <-stop:
					if round > 0 {
						return
					}
				default:
				}
				if w.v.PrevIndex() != w.prev || w.v.LastIndex() != w.last {
					mu.Lock()
					bad = fmt.Sprintf("view bounds %d/%d, created as %d/%d", w.v.PrevIndex(), w.v.LastIndex(), w.prev, w.last)
					mu.Unlock()
					return
				}
				for i := w.prev + 1; i <= w.last; i++ {
					b, err := w.v.Get(i)
					if err != nil || !bytes.Equal(b, w.want[i-w.prev-1]) {
						mu.Lock()
						bad = fmt.Sprintf("view(%d,%d).Get(%d) = %d bytes err %v, want %d bytes", w.prev, w.last, i, len(b), err, len(w.want[i-w.prev-1]))
						mu.Unlock()
						return
					}
				}
				if w.last > w.prev {
					bufs, err := w.v.GetN(w.prev+1, w.last-w.prev)
					var got, want []byte
					for _, b := range bufs {
						got = append(got, b...)
					}
					for _, b := range w.want {
						want = append(want, b...)
					}
					if err != nil || !bytes.Equal(got, want) {
						mu.Lock()
						bad = fmt.Sprintf("view(%d,%d).GetN all = %d bytes err %v, want %d", w.prev, w.last, len(got), err, len(want))
						mu.Unlock()
						return
					}
				}
			}
		}(w)
	}
	// the writer appends (and commits) meanwhile
	k := 1 + e.rng.Intn(12)
	for j := 0; j < k; j++ {
		b := e.payload(1 + e.rng.Intn(e.segSize/3))
		post := e.m.clone()
		post.entries = append(post.entries, b)
		e.begin("append", post, e.durableUp)
		if err := e.l.Append(b); err != nil {
			e.post = e.pre
			e.violation("C13", "append-error", "Append under views: %v", err)
		}
		e.end()
		if e.rng.Intn(4) == 0 {
			e.begin("commit", e.m, e.m.last())
			_ = e.l.Commit()
			e.end()
		}
	}
	close(stop)
	wg.Wait()
	if bad != "" {
		e.violation("C13", "view-changed-under-append", "%s", bad)
	}
	e.opsDone["views"] += int64(len(views))
	*trace = append(*trace, fmt.Sprintf("V%d+%d", len(views), k))
}

// crash images (C14) ------------------------------------------------------------

// onPoint is called at every hook point inside a log operation: the files as
// they are now are the kill -9 image; the last flushed content of each file
// plus any subset of its dirty pages is a power-loss image.
func (e *engineC) onPoint(name string) {
	e.pointsHit[name]++
	if e.pre == nil || e.fail > 0 || e.imgInProg >= e.maxImagesPerProg {
		return
	}
	files, _ := filepath.Glob(filepath.Join(e.dir, "*.log"))
	exists := map[string]bool{}
	for _, f := range files {
		exists[f] = true
	}
	for f := range e.durFiles {
		if !exists[f] {
			delete(e.durFiles, f) // removed: a later file of the same name starts from zeros
		}
	}
	cur := map[string][]byte{}
	for _, f := range files {
		b, err := os.ReadFile(f)
		if err != nil {
			continue
		}
		cur[f] = b
	}
	// kill model
	e.imgInProg++
	e.images++
	e.checkImage(cur, "kill", name)
	// power-loss model
	const page = 4096
	type dp struct {
		f   string
		off int
	}
	var dirty []dp
	base := map[string][]byte{}
	for f, c := range cur {
		d, ok := e.durFiles[f]
		if !ok || len(d) != len(c) {
			d = make([]byte, len(c)) // created, never flushed: zeros of the current size
		}
		base[f] = d
		for off := 0; off < len(c); off += page {
			end := off + page
			if end > len(c) {
				end = len(c)
			}
			if !bytes.Equal(c[off:end], d[off:end]) {
				dirty = append(dirty, dp{f, off})
			}
		}
	}
	sort.Slice(dirty, func(i, j int) bool {
		if dirty[i].f != dirty[j].f {
			return dirty[i].f < dirty[j].f
		}
		return dirty[i].off < dirty[j].off
	})
	var subsets []uint64
	k := len(dirty)
	if k == 0 {
		return
	}
	if k <= 6 {
		for s := uint64(0); s < 1<<uint(k); s++ {
			subsets = append(subsets, s)
		}
	} else {
		if k > 60 {
			k = 60
		}
		full := uint64(1)<<uint(k) - 1
		subsets = append(subsets, 0, full)
		for i := 0; i < k; i++ {
			subsets = append(subsets, 1<<uint(i), full&^(1<<uint(i)))
		}
		for i := 0; i < 16; i++ {
			subsets = append(subsets, e.rng.Uint64()&full)
		}
	}
	for _, s := range subsets {
		if s == uint64(1)<<uint(k)-1 && len(dirty) <= 60 {
			continue // identical to the kill image
		}
		img := map[string][]byte{}
		for f, d := range base {
			img[f] = append([]byte(nil), d...)
		}
		for i := 0; i < k; i++ {
			if s&(1<<uint(i)) != 0 {
				p := dirty[i]
				c := cur[p.f]
				end := p.off + page
				if end > len(c) {
					end = len(c)
				}
				copy(img[p.f][p.off:end], c[p.off:end])
			}
		}
		e.plImages++
		e.checkImage(img, fmt.Sprintf("powerloss(pages %b of %d)", s, k), name)
		if e.fail > 0 {
			return
		}
	}
}

// checkImage reopens an image with the real code and judges it.
func (e *engineC) checkImage(files map[string][]byte, model, point string) {
	dir := filepath.Join(e.imgBase, "i")
	_ = os.RemoveAll(dir)
	if err := os.MkdirAll(dir, 0700); err != nil {
		return
	}
	for f, b := range files {
		_ = os.WriteFile(filepath.Join(dir, filepath.Base(f)), b, 0600)
	}
	where := fmt.Sprintf("%s image at %s during %s (seg %d)", model, point, e.opName, e.segSize)
	// hooks off while the image is examined
	vp, vd, vs, vq := rlog.VerifPoint, rlog.VerifDurable, mmap.VerifSynced, mmap.VerifQuarantine
	rlog.VerifPoint, rlog.VerifDurable, mmap.VerifSynced, mmap.VerifQuarantine = nil, nil, nil, false
	defer func() { rlog.VerifPoint, rlog.VerifDurable, mmap.VerifSynced, mmap.VerifQuarantine = vp, vd, vs, vq }()
	var l *rlog.Log
	var err error
	func() {
		defer func() {
			if v := recover(); v != nil {
				err = fmt.Errorf("panic: %v", v)
			}
		}()
		l, err = rlog.Open(dir, 0700, rlog.Options{FileMode: 0600, SegmentSize: e.segSize})
	}()
	if err != nil {
		e.violation("C14", "reopen-fails", "%s: Open: %v", where, err)
		return
	}
	defer l.Close()
	prev, last := l.PrevIndex(), l.LastIndex()
	for i := prev + 1; i <= last; i++ {
		var b []byte
		var gerr error
		func() {
			defer func() {
				if v := recover(); v != nil {
					gerr = fmt.Errorf("panic: %v", v)
				}
			}()
			b, gerr = l.Get(i)
		}()
		if gerr != nil {
			e.violation("C14", "entry-unreadable", "%s: Get(%d) of reopened log (%d,%d]: %v", where, i, prev, last, gerr)
			return
		}
		w1, ok1 := e.pre.get(i)
		w2, ok2 := e.post.get(i)
		if (ok1 && bytes.Equal(b, w1)) || (ok2 && bytes.Equal(b, w2)) {
			continue
		}
		e.violation("C14", "entry-not-as-appended", "%s: reopened log (%d,%d] holds at %d %d bytes %q..; appended there: %s / %s", where, prev, last, i, len(b), head(b), desc(w1, ok1), desc(w2, ok2))
		return
	}
	// every entry covered by the last completed commit, unless removed since
	// (or being removed by the operation in flight)
	for i := e.pre.prev + 1; i <= e.durableUp; i++ {
		if _, inPost := e.post.get(i); !inPost {
			continue
		}
		if i > e.post.prev && (i <= prev || i > last) {
			e.violation("C14", "committed-entry-lost", "%s: entry %d was covered by a completed commit (up to %d) but the reopened log is (%d,%d]", where, i, e.durableUp, prev, last)
			return
		}
	}
}

func desc(b []byte, ok bool) string {
	if !ok {
		return "nothing"
	}
	return fmt.Sprintf("%d bytes %q..", len(b), head(b))
}
