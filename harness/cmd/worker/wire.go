package main

import (
	"bufio"
	"fmt"
	"net"
	"time"

	"github.com/santhosh-tekuri/raft"

	"verif/ev"
	"verif/memnet"
)

// wirePeer speaks the raft wire protocol as a peer with id src.
type wirePeer struct {
	nw    *memnet.Net
	label string
	src   uint64
	conn  net.Conn
	br    *bufio.Reader
}

// wireDial connects to address and performs the identity handshake for (cid, nid).
func wireDial(nw *memnet.Net, label string, src uint64, address string, cid, nid uint64, timeout time.Duration) (*wirePeer, raft.VerifMsg, error) {
	c, err := nw.Dial(label, address, timeout)
	if err != nil {
		return nil, raft.VerifMsg{}, err
	}
	if mc, ok := c.(*memnet.Conn); ok {
		mc.Meta.Store(fmt.Sprintf("%d/%d", cid, nid))
	}
	p := &wirePeer{nw: nw, label: label, src: src, conn: c, br: bufio.NewReader(c)}
	resp, err := p.call(raft.VerifMsg{Kind: "identity", Src: src, A: cid, B: nid}, nil, timeout)
	if err != nil {
		c.Close()
		return nil, resp, err
	}
	return p, resp, nil
}

// call sends one request (with optional payload following it) and reads the reply.
func (p *wirePeer) call(m raft.VerifMsg, payload []byte, timeout time.Duration) (raft.VerifMsg, error) {
	b, err := raft.VerifEncodeReq(m, true)
	if err != nil {
		return raft.VerifMsg{}, err
	}
	_ = p.conn.SetDeadline(time.Now().Add(timeout))
	if _, err := p.conn.Write(append(b, payload...)); err != nil {
		return raft.VerifMsg{}, err
	}
	return raft.VerifDecodeResp(m.Kind, p.br)
}

func (p *wirePeer) close() { _ = p.conn.Close() }

// wireTimeoutNow delivers a timeout-now request to n, as a removed node that
// still believes it leads could. Any reply is legal Raft; the oracles judge
// what n does next (C11: a non-voter must answer nonVoter and stay put).
func (e *engineA) wireTimeoutNow(n *Node) {
	info, ok := n.info(false)
	if !ok {
		return
	}
	src := uint64(90) // an id that is in no configuration
	p, _, err := wireDial(e.net, "wire", src, n.addr, e.cl.cid, n.nid, 2*e.hb())
	if err != nil {
		return
	}
	defer p.close()
	term := info.Term
	if term > 1 && e.cl.rnd(3) == 0 {
		// a request that was on its way for a long time: from a term that is over
		term -= uint64(1 + e.cl.rnd(int(term-1)))
	}
	resp, err := p.call(raft.VerifMsg{Kind: "timeoutNow", Term: term, Src: src}, nil, 2*e.hb())
	rec := &ev.Rec{K: "wire-timeoutnow", Nid: n.nid, Cid: e.cl.cid, Term: term, Res: resp.Result}
	if err != nil {
		rec.Err = err.Error()
	}
	e.rc.emit(rec)
}
