package main

import "fmt"

var scenarios = map[string]func(e *engineA) error{}

func runOther(cfg *RunConfig, rc *Recorder, res *Result) error {
	switch cfg.Engine {
	case "B":
		return runEngineB(cfg, rc, res)
	case "C":
		return runEngineC(cfg, rc, res)
	case "D":
		return runEngineD(cfg, rc, res)
	}
	return fmt.Errorf("engine %q not implemented", cfg.Engine)
}
