package main

import "fmt"

var scenarios = map[string]func(e *engineA) error{}

func runOther(cfg *RunConfig, rc *Recorder, res *Result) error {
	return fmt.Errorf("engine %q not implemented", cfg.Engine)
}
