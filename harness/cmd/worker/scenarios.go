package main

import (
	"fmt"
	"sync/atomic"
	"time"

	"github.com/santhosh-tekuri/raft"

	"verif/ev"
)

func init() {
	scenarios["unflushed-ack"] = scenUnflushedAck
	scenarios["stale-candidate"] = scenStaleCandidate
	scenarios["stale-suffix-install"] = scenStaleSuffixInstall
}

// waitFor polls cond every hb/4 for at most n heartbeat timeouts.
func (e *engineA) waitFor(n int, cond func() bool) bool {
	deadline := time.Now().Add(time.Duration(n) * e.hb())
	for time.Now().Before(deadline) {
		if cond() {
			return true
		}
		time.Sleep(e.hb() / 4)
	}
	return cond()
}

func (e *engineA) others(n *Node) []*Node {
	var out []*Node
	for _, m := range e.cl.liveNodes() {
		if m != n {
			out = append(out, m)
		}
	}
	return out
}

// scenUnflushedAck: a leader appends entries it cannot commit (replies from
// its followers are cut), steps down, and a follower that holds the same
// entries becomes leader. After the heal the ex-leader acknowledges the new
// leader's first heartbeat; the new leader starts sending entries only after it
// has received that acknowledgement, and the node is crashed when the first of
// them is being appended (before it is flushed). C10: whatever it acknowledged as stored must
// still be there after the restart.
func scenUnflushedAck(e *engineA) error {
	e.prof = profiles["general"]
	if err := e.boot(3); err != nil {
		return err
	}
	e.cl.startInfoSampler(e.hb() / 2)
	l := e.cl.leader()
	if l == nil {
		return fmt.Errorf("no leader")
	}
	// some committed history first
	for i := 0; i < 5; i++ {
		e.cl.fsmOp(1, l, "update")
	}
	fs := e.others(l)
	e.rc.emit(&ev.Rec{K: "fault", Op: "cut-replies-to-leader", Nid: l.nid})
	for _, f := range fs {
		e.net.Cut(f.label, l.label, true)
	}
	// updates that reach the followers but can never be acknowledged to l
	for i := 0; i < 3+e.rng.Intn(4); i++ {
		go e.cl.fsmOp(2, l, "update")
	}
	// l steps down; the others elect a leader
	var nl *Node
	ok := e.waitFor(60, func() bool {
		for _, f := range fs {
			if info, ok := f.info(false); ok && info.State == raft.Leader {
				nl = f
				return true
			}
		}
		return false
	})
	if !ok {
		return fmt.Errorf("followers elected no leader")
	}
	e.waitFor(20, func() bool {
		info, ok := l.info(false)
		return ok && info.State != raft.Leader
	})
	// crash l at the first append that follows its first successful append reply
	var armed int32 = 1
	ldir := l.dir
	e.rc.onNodeEvent = func(dir string, r *ev.Rec) {
		if dir == ldir && r.K == "rpc" && r.RPC == "append" && r.Res == "success" && atomic.CompareAndSwapInt32(&armed, 1, 0) {
			e.pc.planCrash(dir, "append", 1)
		}
	}
	e.rc.emit(&ev.Rec{K: "fault", Op: "heal-and-crash-after-first-ack", Nid: l.nid, ID: nl.nid})
	for _, f := range fs {
		e.net.Cut(f.label, l.label, false)
		e.net.Release(f.label, l.label, true)
	}
	e.waitFor(40, func() bool { return l.crashed })
	e.rc.onNodeEvent = nil
	e.sleepHB(1, 3)
	e.cl.recoverCrashed()
	e.startClients(2, map[string]int{"update": 1})
	e.sleepHB(4, 8)
	return e.finish()
}

// staleTail isolates leader l and makes it append k entries it can never
// commit; returns the node the others elected.
func (e *engineA) staleTail(l *Node, k, pad int) (*Node, error) {
	e.rc.emit(&ev.Rec{K: "fault", Op: "isolate-leader-with-stale-tail", Nid: l.nid})
	e.isolate(l, true)
	for i := 0; i < k; i++ {
		go e.cl.fsmOpPad(3, l, "update", pad)
	}
	fs := e.others(l)
	var nl *Node
	ok := e.waitFor(80, func() bool {
		for _, f := range fs {
			if info, ok := f.info(false); ok && info.State == raft.Leader {
				nl = f
				return true
			}
		}
		return false
	})
	if !ok {
		return nil, fmt.Errorf("the majority side elected no leader")
	}
	return nl, nil
}

// scenStaleCandidate (C02, leader completeness): an isolated ex-leader with
// a long uncommitted tail of an old term campaigns against a voter that holds
// fewer entries, the last of which is committed and of a newer term.
func scenStaleCandidate(e *engineA) error {
	e.prof = profiles["general"]
	if err := e.boot(3); err != nil {
		return err
	}
	e.cl.startInfoSampler(e.hb() / 2)
	l := e.cl.leader()
	if l == nil {
		return fmt.Errorf("no leader")
	}
	for i := 0; i < 4; i++ {
		e.cl.fsmOp(1, l, "update")
	}
	nl, err := e.staleTail(l, 12+e.rng.Intn(12), 0)
	if err != nil {
		return err
	}
	// a few committed entries of the new term (fewer than the stale tail)
	for i := 0; i < 1+e.rng.Intn(3); i++ {
		if r := e.cl.fsmOp(1, nl, "update"); !r.ok {
			break
		}
	}
	e.sleepHB(1, 2)
	// the new leader goes away; the remaining voter meets the stale candidate
	e.rc.emit(&ev.Rec{K: "fault", Op: "stop-new-leader-heal-stale", Nid: nl.nid})
	nl.shutdown(30 * time.Second)
	e.isolate(l, false)
	e.waitFor(60, func() bool { return e.cl.leader() != nil })
	e.startClients(2, map[string]int{"update": 3, "read": 1})
	e.sleepHB(4, 8)
	if _, err := e.cl.start(nl.nid, nl.dir); err != nil {
		e.rc.emit(&ev.Rec{K: "restart-failed", Cid: e.cl.cid, Nid: nl.nid, Err: err.Error()})
	}
	e.sleepHB(3, 6)
	return e.finish()
}

// scenStaleSuffixInstall (C03 / C09 / C04): a node holding an uncommitted
// suffix of an old term that covers the snapshot index is brought up to date
// by snapshot installation.
func scenStaleSuffixInstall(e *engineA) error {
	e.prof = profiles["general"]
	if err := e.boot(3); err != nil {
		return err
	}
	e.cl.startInfoSampler(e.hb() / 2)
	l := e.cl.leader()
	if l == nil {
		return fmt.Errorf("no leader")
	}
	for i := 0; i < 4; i++ {
		e.cl.fsmOp(1, l, "update")
	}
	stale := 10 + e.rng.Intn(15)
	nl, err := e.staleTail(l, stale, 0)
	if err != nil {
		return err
	}
	// the new leader commits entries beyond the stale tail, with payloads that
	// make its log roll over small segments, snapshots and compacts
	n := stale/2 + e.rng.Intn(stale)
	for i := 0; i < n; i++ {
		if r := e.cl.fsmOpPad(1, nl, "update", 150+e.rng.Intn(200)); !r.ok {
			break
		}
	}
	// let the new leader notice that the isolated node is unreachable: only
	// then does it compact without waiting for it
	e.sleepHB(4, 5)
	e.rc.emit(&ev.Rec{K: "fault", Op: "snapshot-on-new-leader", Nid: nl.nid})
	e.cl.takeSnapshot(nl, 0)
	for _, f := range e.others(l) {
		if f != nl {
			e.cl.takeSnapshot(f, 0)
		}
	}
	// wait for the compaction handshake
	e.waitFor(30, func() bool {
		info, ok := nl.info(false)
		return ok && info.FirstLogIndex > 6
	})
	e.rc.emit(&ev.Rec{K: "fault", Op: "heal", Nid: l.nid})
	e.isolate(l, false)
	e.startClients(2, map[string]int{"update": 3, "read": 1})
	e.sleepHB(6, 12)
	return e.finish()
}
