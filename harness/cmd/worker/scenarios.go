package main

import (
	"bufio"
	"context"
	"fmt"
	"net"
	"os"
	"path/filepath"
	"sort"
	"sync"
	"sync/atomic"
	"time"

	"github.com/santhosh-tekuri/raft"

	"verif/ev"
	"verif/memnet"
)

func init() {
	scenarios["unflushed-ack"] = scenUnflushedAck
	scenarios["stale-candidate"] = scenStaleCandidate
	scenarios["stale-suffix-install"] = scenStaleSuffixInstall
	scenarios["double-failed-leadership"] = scenDoubleFailedLeadership
	scenarios["snap-config-race"] = scenSnapConfigRace
	scenarios["double-install"] = scenDoubleInstall
	scenarios["uncommitted-config"] = scenUncommittedConfig
}

// waitFor polls cond every hb/4 for at most n heartbeat timeouts.
func (e *engineA) waitFor(n int, cond func() bool) bool {
	deadline := time.Now().Add(time.Duration(n) * e.hb())
	for time.Now().Before(deadline) {
		if cond() {
			return true
		}
		time.Sleep(e.hb() / 4)
	}
	return cond()
}

func (e *engineA) others(n *Node) []*Node {
	var out []*Node
	for _, m := range e.cl.liveNodes() {
		if m != n {
			out = append(out, m)
		}
	}
	return out
}

// scenUnflushedAck: a leader appends entries it cannot commit (replies from
// its followers are cut), steps down, and a follower that holds the same
// entries becomes leader. After the heal the ex-leader acknowledges the new
// leader's first heartbeat; the new leader starts sending entries only after it
// has received that acknowledgement, and the node is crashed when the first of
// them is being appended (before it is flushed). C10: whatever it acknowledged as stored must
// still be there after the restart.
func scenUnflushedAck(e *engineA) error {
	e.prof = profiles["general"]
	if err := e.boot(3); err != nil {
		return err
	}
	e.cl.startInfoSampler(e.hb() / 2)
	l := e.cl.leader()
	if l == nil {
		return fmt.Errorf("no leader")
	}
	// some committed history first
	for i := 0; i < 5; i++ {
		e.cl.fsmOp(1, l, "update")
	}
	fs := e.others(l)
	e.rc.emit(&ev.Rec{K: "fault", Op: "cut-replies-to-leader", Nid: l.nid})
	for _, f := range fs {
		e.net.Cut(f.label, l.label, true)
	}
	// updates that reach the followers but can never be acknowledged to l
	for i := 0; i < 3+e.rng.Intn(4); i++ {
		go e.cl.fsmOp(2, l, "update")
	}
	// l steps down; the others elect a leader
	var nl *Node
	ok := e.waitFor(60, func() bool {
		for _, f := range fs {
			if info, ok := f.info(false); ok && info.State == raft.Leader {
				nl = f
				return true
			}
		}
		return false
	})
	if !ok {
		return fmt.Errorf("followers elected no leader")
	}
	e.waitFor(20, func() bool {
		info, ok := l.info(false)
		return ok && info.State != raft.Leader
	})
	// crash l at the first append that follows its first successful append reply
	var armed int32 = 1
	ldir := l.dir
	e.rc.setOnNodeEvent(func(dir string, r *ev.Rec) {
		if dir == ldir && r.K == "rpc" && r.RPC == "append" && r.Res == "success" && atomic.CompareAndSwapInt32(&armed, 1, 0) {
			e.pc.planCrash(dir, "append", 1)
		}
	})
	e.rc.emit(&ev.Rec{K: "fault", Op: "heal-and-crash-after-first-ack", Nid: l.nid, ID: nl.nid})
	for _, f := range fs {
		e.net.Cut(f.label, l.label, false)
		e.net.Release(f.label, l.label, true)
	}
	e.waitFor(40, func() bool { return l.isCrashed() })
	e.rc.setOnNodeEvent(nil)
	e.sleepHB(1, 3)
	e.cl.recoverCrashed()
	e.startClients(2, map[string]int{"update": 1})
	e.sleepHB(4, 8)
	return e.finish()
}

// staleTail isolates leader l and makes it append k entries it can never
// commit; returns the node the others elected.
func (e *engineA) staleTail(l *Node, k, pad int) (*Node, error) {
	e.rc.emit(&ev.Rec{K: "fault", Op: "isolate-leader-with-stale-tail", Nid: l.nid})
	e.isolate(l, true)
	for i := 0; i < k; i++ {
		go e.cl.fsmOpPad(3, l, "update", pad)
	}
	fs := e.others(l)
	var nl *Node
	ok := e.waitFor(80, func() bool {
		for _, f := range fs {
			if info, ok := f.info(false); ok && info.State == raft.Leader {
				nl = f
				return true
			}
		}
		return false
	})
	if !ok {
		return nil, fmt.Errorf("the majority side elected no leader")
	}
	return nl, nil
}

// scenStaleCandidate (C02, leader completeness): an isolated ex-leader with
// a long uncommitted tail of an old term campaigns against a voter that holds
// fewer entries, the last of which is committed and of a newer term.
func scenStaleCandidate(e *engineA) error {
	e.prof = profiles["general"]
	if err := e.boot(3); err != nil {
		return err
	}
	e.cl.startInfoSampler(e.hb() / 2)
	l := e.cl.leader()
	if l == nil {
		return fmt.Errorf("no leader")
	}
	for i := 0; i < 4; i++ {
		e.cl.fsmOp(1, l, "update")
	}
	nl, err := e.staleTail(l, 12+e.rng.Intn(12), 0)
	if err != nil {
		return err
	}
	// a few committed entries of the new term (fewer than the stale tail)
	for i := 0; i < 1+e.rng.Intn(3); i++ {
		if r := e.cl.fsmOp(1, nl, "update"); !r.ok {
			break
		}
	}
	e.sleepHB(1, 2)
	// the new leader goes away; the remaining voter meets the stale candidate
	e.rc.emit(&ev.Rec{K: "fault", Op: "stop-new-leader-heal-stale", Nid: nl.nid})
	nl.shutdown(30 * time.Second)
	e.isolate(l, false)
	e.waitFor(60, func() bool { return e.cl.leader() != nil })
	e.startClients(2, map[string]int{"update": 3, "read": 1})
	e.sleepHB(4, 8)
	if _, err := e.cl.start(nl.nid, nl.dir); err != nil {
		e.rc.emit(&ev.Rec{K: "restart-failed", Cid: e.cl.cid, Nid: nl.nid, Err: err.Error()})
	}
	e.sleepHB(3, 6)
	return e.finish()
}

// scenStaleSuffixInstall (C03 / C09 / C04): a node holding an uncommitted
// suffix of an old term that covers the snapshot index is brought up to date
// by snapshot installation.
func scenStaleSuffixInstall(e *engineA) error {
	e.prof = profiles["general"]
	if err := e.boot(3); err != nil {
		return err
	}
	e.cl.startInfoSampler(e.hb() / 2)
	l := e.cl.leader()
	if l == nil {
		return fmt.Errorf("no leader")
	}
	for i := 0; i < 4; i++ {
		e.cl.fsmOp(1, l, "update")
	}
	stale := 10 + e.rng.Intn(15)
	nl, err := e.staleTail(l, stale, 0)
	if err != nil {
		return err
	}
	// the new leader commits entries beyond the stale tail, with payloads that
	// make its log roll over small segments, snapshots and compacts
	n := stale/2 + e.rng.Intn(stale)
	for i := 0; i < n; i++ {
		if r := e.cl.fsmOpPad(1, nl, "update", 150+e.rng.Intn(200)); !r.ok {
			break
		}
	}
	// let the new leader notice that the isolated node is unreachable: only
	// then does it compact without waiting for it
	e.sleepHB(4, 5)
	e.rc.emit(&ev.Rec{K: "fault", Op: "snapshot-on-new-leader", Nid: nl.nid})
	e.cl.takeSnapshot(nl, 0)
	for _, f := range e.others(l) {
		if f != nl {
			e.cl.takeSnapshot(f, 0)
		}
	}
	// wait for the compaction handshake
	e.waitFor(30, func() bool {
		info, ok := nl.info(false)
		return ok && info.FirstLogIndex > 6
	})
	e.rc.emit(&ev.Rec{K: "fault", Op: "heal", Nid: l.nid})
	e.isolate(l, false)
	e.startClients(2, map[string]int{"update": 3, "read": 1})
	e.sleepHB(6, 12)
	return e.finish()
}

// scenDoubleFailedLeadership (C04): two consecutive leaderships that fail
// before replicating anything leave two different uncommitted entries at the
// same index - G's of term t and W's of a later term t' - and then G, whose
// entry is the older one, is elected again (by O, whose log is shorter) and
// replicates to W.
func scenDoubleFailedLeadership(e *engineA) error {
	e.prof = profiles["general"]
	if err := e.boot(3); err != nil {
		return err
	}
	e.cl.startInfoSampler(e.hb() / 2)
	g := e.cl.leader()
	if g == nil {
		return fmt.Errorf("no leader")
	}
	for i := 0; i < 3; i++ {
		e.cl.fsmOp(1, g, "update")
	}
	e.sleepHB(1, 2)
	// the next node that becomes leader is cut off before it can send anything
	var w *Node
	var wset int32
	e.rc.setOnNodeEvent(func(dir string, r *ev.Rec) {
		if r.K == "state" && r.St != nil && r.St.State == "L" && dir != g.dir && atomic.CompareAndSwapInt32(&wset, 0, 1) {
			for _, n := range e.cl.liveNodes() {
				if n.dir == dir {
					w = n
				}
			}
			if w != nil {
				for _, m := range e.cl.liveNodes() {
					if m != w {
						e.net.Cut(w.label, m.label, true)
						e.net.Cut(m.label, w.label, true)
					}
				}
			}
		}
	})
	e.rc.emit(&ev.Rec{K: "fault", Op: "isolate-leader-g", Nid: g.nid})
	e.isolate(g, true)
	for i := 0; i < 1+e.rng.Intn(3); i++ {
		go e.cl.fsmOp(2, g, "update") // entries only g ever sees
	}
	if !e.waitFor(100, func() bool { return atomic.LoadInt32(&wset) == 1 }) {
		e.rc.setOnNodeEvent(nil)
		return fmt.Errorf("no second leader")
	}
	e.rc.setOnNodeEvent(nil)
	if w == nil {
		return fmt.Errorf("second leader not found")
	}
	e.rc.emit(&ev.Rec{K: "fault", Op: "second-leader-isolated-at-election", Nid: w.nid})
	// entries only w ever sees (its no-op, maybe an update)
	go e.cl.fsmOp(2, w, "update")
	var o *Node
	for _, n := range e.cl.liveNodes() {
		if n != g && n != w {
			o = n
		}
	}
	// g and o can talk again; w stays away
	e.sleepHB(2, 3)
	e.rc.emit(&ev.Rec{K: "fault", Op: "heal-g-o", Nid: g.nid, ID: o.nid})
	e.cutBoth(g, o, false)
	if !e.waitFor(150, func() bool {
		info, ok := g.info(false)
		if ok && info.State == raft.Leader {
			return true
		}
		info, ok = o.info(false)
		return ok && info.State == raft.Leader
	}) {
		return fmt.Errorf("g/o elected no leader")
	}
	if l := e.cl.leader(); l != nil {
		e.cl.fsmOp(1, l, "update")
	}
	e.rc.emit(&ev.Rec{K: "fault", Op: "heal-w", Nid: w.nid})
	e.isolate(w, false)
	e.startClients(2, map[string]int{"update": 3, "read": 1})
	e.sleepHB(6, 10)
	return e.finish()
}

// scenSnapConfigRace (C12): a snapshot is requested, then held at the start
// of its goroutine (or before the state machine is asked) while a membership
// change commits and is applied; then it is let go. The label must not name
// a membership older than the configuration entry at or below its index.
// Afterwards the node is compacted and restarted, and a wiped node is
// brought in by installation.
func scenSnapConfigRace(e *engineA) error {
	e.prof = profiles["member"]
	if err := e.boot(3); err != nil {
		return err
	}
	e.cl.startInfoSampler(e.hb() / 2)
	l := e.cl.leader()
	if l == nil {
		return fmt.Errorf("no leader")
	}
	for i := 0; i < 5; i++ {
		e.cl.fsmOpPad(1, l, "update", 120)
	}
	target := l
	if e.rng.Intn(2) == 0 {
		target = e.others(l)[e.rng.Intn(2)]
	}
	point := "snap.start" // (holding fsm.beforeSnap would stall the state machine, and with it GetInfo and the raft goroutine)
	e.rc.emit(&ev.Rec{K: "fault", Op: "hold-snapshot-at-" + point, Nid: target.nid})
	hit := e.pc.hold(target.dir, point)
	go e.cl.takeSnapshot(target, 0)
	select {
	case <-hit:
	case <-time.After(100 * e.hb()):
		e.pc.release(target.dir, point)
		return fmt.Errorf("snapshot never reached %s", point)
	}
	// a membership change commits and is applied meanwhile
	old, _ := target.info(false)
	if _, err := e.cl.start(4, e.cl.dirOf(4)); err != nil {
		return err
	}
	e.ids = append(e.ids, 4)
	if err := e.cl.changeConfig(l, "add(4)", func(conf *raft.Config) error {
		return conf.AddNonvoter(4, e.cl.addrOf(4), e.rng.Intn(2) == 0)
	}); err != nil {
		e.pc.release(target.dir, point)
		return fmt.Errorf("changeConfig: %v", err)
	}
	for i := 0; i < 6+e.rng.Intn(10); i++ {
		e.cl.fsmOpPad(1, l, "update", 100+e.rng.Intn(200))
	}
	e.waitFor(40, func() bool {
		info, ok := target.info(false)
		return ok && info.Configs.Committed.Index > old.Configs.Committed.Index && info.LastApplied >= info.Configs.Committed.Index
	})
	e.rc.emit(&ev.Rec{K: "fault", Op: "release-snapshot", Nid: target.nid})
	e.pc.release(target.dir, point)
	e.sleepHB(3, 5)
	for i := 0; i < 6; i++ {
		e.cl.fsmOpPad(1, l, "update", 150)
	}
	// restart from snapshot + suffix
	e.rc.emit(&ev.Rec{K: "fault", Op: "restart", Nid: target.nid})
	if _, err := e.cl.restart(target.nid); err != nil {
		e.rc.emit(&ev.Rec{K: "restart-failed", Cid: e.cl.cid, Nid: target.nid, Err: err.Error()})
	}
	e.sleepHB(3, 5)
	// installation on a wiped member
	if nl := e.cl.waitLeader(60 * e.hb()); nl != nil {
		var victim *Node
		for _, n := range e.cl.liveNodes() {
			if n != nl && n.nid != 4 {
				victim = n
			}
		}
		if victim != nil && e.rng.Intn(2) == 0 {
			e.cl.takeSnapshot(nl, 0)
			e.sleepHB(2, 3)
		}
	}
	e.startClients(2, map[string]int{"update": 3, "read": 1})
	e.sleepHB(4, 8)
	return e.finish()
}

// scenDoubleInstall (C15 / C09): two followers fall behind a compaction and
// are brought back at the same moment, so that two replication goroutines
// open and send the snapshot concurrently.
func scenDoubleInstall(e *engineA) error {
	e.prof = profiles["snapshot"]
	n := 4 + e.rng.Intn(2)
	if err := e.boot(n); err != nil {
		return err
	}
	e.cl.startInfoSampler(e.hb() / 2)
	l := e.cl.leader()
	if l == nil {
		return fmt.Errorf("no leader")
	}
	for i := 0; i < 5; i++ {
		e.cl.fsmOp(1, l, "update")
	}
	fs := e.others(l)
	lag := fs[:2]
	e.rc.emit(&ev.Rec{K: "fault", Op: "isolate-two-followers", Nid: lag[0].nid, ID: lag[1].nid})
	for _, f := range lag {
		e.isolate(f, true)
	}
	for i := 0; i < 30+e.rng.Intn(30); i++ {
		if r := e.cl.fsmOpPad(1, l, "update", 100+e.rng.Intn(200)); !r.ok {
			break
		}
	}
	e.sleepHB(4, 5) // unreachable detected
	e.cl.takeSnapshot(l, 0)
	e.waitFor(30, func() bool {
		info, ok := l.info(false)
		return ok && info.FirstLogIndex > 6
	})
	e.rc.emit(&ev.Rec{K: "fault", Op: "heal-both-at-once"})
	for _, f := range lag {
		e.isolate(f, false)
	}
	e.startClients(3, map[string]int{"update": 4, "read": 1, "dirty": 1})
	e.sleepHB(6, 10)
	// and once more while a snapshot is being taken
	go e.cl.takeSnapshot(l, 0)
	e.sleepHB(2, 4)
	return e.finish()
}

// scenUncommittedConfig (C19 / C12 / C08): an isolated leader appends a
// configuration entry it can never commit; the majority moves on. Variants:
// (0) heal: the conflict is found exactly at the configuration entry's index;
// (1) the isolated leader also takes a snapshot and is restarted before the heal;
// (2) the majority snapshots and compacts, so that the node comes back by
// snapshot installation with its log discarded.
func scenUncommittedConfig(e *engineA) error {
	e.prof = profiles["member"]
	if err := e.boot(3); err != nil {
		return err
	}
	e.cl.startInfoSampler(e.hb() / 2)
	l := e.cl.leader()
	if l == nil {
		return fmt.Errorf("no leader")
	}
	for i := 0; i < 4; i++ {
		e.cl.fsmOp(1, l, "update")
	}
	variant := e.cfg.paramInt("variant", e.rng.Intn(4))
	if variant == 3 {
		return e.phantomConfig(l)
	}
	if _, err := e.cl.start(4, e.cl.dirOf(4)); err != nil {
		return err
	}
	e.ids = append(e.ids, 4)
	e.rc.emit(&ev.Rec{K: "fault", Op: fmt.Sprintf("isolate-leader-then-changeconfig-v%d", variant), Nid: l.nid})
	e.isolate(l, true)
	go e.cl.changeConfig(l, "add(4) on isolated leader", func(conf *raft.Config) error {
		return conf.AddNonvoter(4, e.cl.addrOf(4), false)
	})
	e.sleepHB(0.5, 1)
	// a second request, built on the configuration that is not committed yet
	go e.cl.changeConfig(l, "second request over an uncommitted configuration", func(conf *raft.Config) error {
		for id, nd := range conf.Nodes {
			if nd.Voter && id != l.nid {
				return conf.SetAction(id, raft.Demote)
			}
		}
		return fmt.Errorf("skip")
	})
	e.sleepHB(0.3, 0.6)
	if variant == 1 {
		e.cl.takeSnapshot(l, 0)
	}
	fs := e.others(l)
	var nl *Node
	if !e.waitFor(100, func() bool {
		for _, f := range fs {
			if f.nid == 4 {
				continue
			}
			if info, ok := f.info(false); ok && info.State == raft.Leader {
				nl = f
				return true
			}
		}
		return false
	}) {
		return fmt.Errorf("majority elected no leader")
	}
	if variant == 2 {
		for i := 0; i < 20+e.rng.Intn(20); i++ {
			if r := e.cl.fsmOpPad(1, nl, "update", 120+e.rng.Intn(200)); !r.ok {
				break
			}
		}
		e.sleepHB(4, 5)
		e.cl.takeSnapshot(nl, 0)
		e.waitFor(30, func() bool {
			info, ok := nl.info(false)
			return ok && info.FirstLogIndex > 6
		})
	} else {
		e.cl.fsmOp(1, nl, "update")
	}
	if variant == 1 {
		e.rc.emit(&ev.Rec{K: "fault", Op: "restart-isolated", Nid: l.nid})
		if n2, err := e.cl.restart(l.nid); err == nil {
			l = n2
			e.isolate(l, true)
		}
	}
	e.rc.emit(&ev.Rec{K: "fault", Op: "heal", Nid: l.nid})
	e.isolate(l, false)
	e.startClients(2, map[string]int{"update": 3, "read": 1})
	e.sleepHB(6, 10)
	if variant == 2 {
		// the node that came back by installation labels its own next snapshot
		if n := e.cl.node(l.nid); n != nil && n.alive() {
			e.cl.takeSnapshot(n, 0)
			e.sleepHB(1, 2)
		}
	}
	return e.finish()
}

// phantomConfig (variant 3 of uncommitted-config; C08 / C19): the isolated
// leader stores a request that asks for a change of voting rights (demote or
// remove another voter); the entry is truncated after the heal. Then the
// leadership is handed back to that node: nothing of the request that was
// lost may be carried out.
func (e *engineA) phantomConfig(l *Node) error {
	fs := e.others(l)
	x := fs[e.rng.Intn(len(fs))]
	act := raft.Demote
	if e.rng.Intn(2) == 0 {
		act = raft.Remove
	}
	e.rc.emit(&ev.Rec{K: "fault", Op: fmt.Sprintf("isolate-leader-then-%v-another-voter", act), Nid: l.nid, ID: x.nid})
	e.isolate(l, true)
	go e.cl.changeConfig(l, fmt.Sprintf("%v(%d) on isolated leader", act, x.nid), func(conf *raft.Config) error {
		return conf.SetAction(x.nid, act)
	})
	var nl *Node
	if !e.waitFor(100, func() bool {
		for _, f := range fs {
			if info, ok := f.info(false); ok && info.State == raft.Leader {
				nl = f
				return true
			}
		}
		return false
	}) {
		return fmt.Errorf("majority elected no leader")
	}
	for i := 0; i < 2+e.rng.Intn(3); i++ {
		e.cl.fsmOp(1, nl, "update")
	}
	e.waitFor(40, func() bool {
		info, ok := l.info(false)
		return ok && info.State != raft.Leader
	})
	e.rc.emit(&ev.Rec{K: "fault", Op: "heal", Nid: l.nid})
	e.isolate(l, false)
	e.waitFor(40, func() bool {
		a, ok1 := l.info(false)
		b, ok2 := nl.info(false)
		return ok1 && ok2 && a.Committed >= b.Committed && b.State == raft.Leader
	})
	if e.rng.Intn(2) == 0 {
		// the majority changes another voter: every node goes from the
		// configuration it operates under to the new one
		for _, y := range fs {
			if y != x {
				e.cl.changeConfig(nl, fmt.Sprintf("demote(%d) by the majority's leader", y.nid), func(conf *raft.Config) error {
					return conf.SetAction(y.nid, raft.Demote)
				})
			}
		}
		e.sleepHB(2, 3)
		if cur := e.cl.leader(); cur != nil {
			nl = cur
		}
	}
	if nl != l {
		e.rc.emit(&ev.Rec{K: "fault", Op: "hand-leadership-back", Nid: nl.nid, ID: l.nid})
		e.cl.transfer(nl, l.nid, 20*e.hb())
		e.sleepHB(2, 3)
	}
	if cur := e.cl.leader(); cur != nil {
		for i := 0; i < 3; i++ {
			e.cl.fsmOp(1, cur, "update")
		}
		if e.rng.Intn(2) == 0 {
			// the leader alone on its side: only a wrong voter set lets it go on
			e.rc.emit(&ev.Rec{K: "fault", Op: "isolate-leader-again", Nid: cur.nid})
			e.isolate(cur, true)
			go e.cl.fsmOp(2, cur, "update")
			e.sleepHB(3, 5)
			e.isolate(cur, false)
		}
	}
	e.startClients(2, map[string]int{"update": 3, "read": 1})
	e.sleepHB(4, 8)
	return e.finish()
}

// identity isolation and storage exclusivity (C20) ------------------------------

type mixResolver struct {
	mu   sync.Mutex
	real map[uint64]string
	bad  map[uint64]string // overrides currently in force
}

func (m *mixResolver) LookupID(id uint64, timeout time.Duration) (string, error) {
	m.mu.Lock()
	defer m.mu.Unlock()
	if a, ok := m.bad[id]; ok {
		return a, nil
	}
	if a, ok := m.real[id]; ok {
		return a, nil
	}
	return "", fmt.Errorf("unknown node %d", id)
}

func init() { scenarios["identity"] = scenIdentity }

// scenIdentity: two clusters with the same node ids share one network.
// Addresses are rebound to nodes of the other cluster / other nodes of the
// same cluster while connections are pooled, resolvers hand out wrong
// addresses, a peer shakes hands under a wrong identity and keeps talking,
// and storage directories in use are opened again.
func scenIdentity(e *engineA) error {
	e.prof = profiles["general"]
	res1 := &mixResolver{real: map[uint64]string{}, bad: map[uint64]string{}}
	res2 := &mixResolver{real: map[uint64]string{}, bad: map[uint64]string{}}
	opt2 := e.cl.opt
	e.cl.opt.Resolver = res1
	opt2.Resolver = res2
	c2 := newCluster(2, e.rc, e.pc, e.net, e.cfg.Scratch, opt2, e.cfg.Seed^0xc2)
	for id := uint64(1); id <= 3; id++ {
		res1.real[id] = e.cl.addrOf(id)
		res2.real[id] = c2.addrOf(id)
	}
	onCrash1 := e.cl.onCrash
	e.pc.onCrash = func(dir, image, point string, occ int) {
		onCrash1(dir, image, point, occ)
		c2.onCrash(dir, image, point, occ)
	}
	if err := e.boot(3); err != nil {
		return err
	}
	if err := c2.bootstrap([]uint64{1, 2, 3}); err != nil {
		return fmt.Errorf("cluster 2: %v", err)
	}
	if c2.waitLeader(200*e.hb()) == nil {
		return fmt.Errorf("cluster 2: no leader")
	}
	e.cl.startInfoSampler(e.hb())
	c2.startInfoSampler(e.hb())
	e.startClientsOn(e.cl, 2, map[string]int{"update": 4, "read": 1})
	e.startClientsOn(c2, 2, map[string]int{"update": 4, "read": 1})
	cls := []*Cluster{e.cl, c2}
	ress := []*mixResolver{res1, res2}
	steps := e.cfg.paramInt("steps", 14)
	for i := 0; i < steps; i++ {
		e.sleepHB(1, 3)
		ci := e.rng.Intn(2)
		cl, other := cls[ci], cls[1-ci]
		id := uint64(1 + e.rng.Intn(3))
		n := cl.node(id)
		switch act := e.rng.Intn(8); act {
		case 0: // the node's address now leads to the same node id of the other cluster
			on := other.node(id)
			if on == nil || n == nil || !on.alive() || !n.alive() {
				continue
			}
			e.rc.emit(&ev.Rec{K: "fault", Op: "rebind-to-other-cluster", Cid: cl.cid, Nid: id})
			e.net.Rebind(n.addr, on.lis)
			for _, m := range cl.liveNodes() {
				e.net.BreakConns(m.label, n.label)
			}
			e.sleepHB(2, 5)
			e.net.Rebind(n.addr, n.lis)
		case 1: // ... or to another node of its own cluster
			oid := id%3 + 1
			on := cl.node(oid)
			if on == nil || n == nil || !on.alive() || !n.alive() {
				continue
			}
			e.rc.emit(&ev.Rec{K: "fault", Op: "rebind-to-other-node", Cid: cl.cid, Nid: id, ID: oid})
			e.net.Rebind(n.addr, on.lis)
			for _, m := range cl.liveNodes() {
				e.net.BreakConns(m.label, n.label)
			}
			e.sleepHB(2, 5)
			e.net.Rebind(n.addr, n.lis)
		case 2: // the resolver hands out an address of the other cluster / another node
			r := ress[ci]
			wrong := other.addrOf(uint64(1 + e.rng.Intn(3)))
			if e.rng.Intn(2) == 0 {
				wrong = cl.addrOf(id%3 + 1)
			}
			e.rc.emit(&ev.Rec{K: "fault", Op: "resolver-wrong-address", Cid: cl.cid, Nid: id, Note: wrong})
			r.mu.Lock()
			r.bad[id] = wrong
			r.mu.Unlock()
			if n != nil {
				for _, m := range cl.liveNodes() {
					e.net.BreakConns(m.label, n.label)
				}
			}
			e.sleepHB(2, 5)
			r.mu.Lock()
			delete(r.bad, id)
			r.mu.Unlock()
		case 3: // a peer of the other cluster shakes hands (all 4 combinations of wrong / right cid, nid) and keeps talking
			if n == nil || !n.alive() {
				continue
			}
			e.rc.emit(&ev.Rec{K: "fault", Op: "wire-wrong-identity", Cid: cl.cid, Nid: id})
			for k := 0; k < 4; k++ {
				cid, nid := cl.cid, id
				if k&1 != 0 {
					cid = other.cid
				}
				if k&2 != 0 {
					nid = id%3 + 1
				}
				e.wireTalk(n, cid, nid)
			}
		case 7: // the address leads to a peer that refuses the handshake but keeps the connection open
			if n == nil || !n.alive() {
				continue
			}
			e.rc.emit(&ev.Rec{K: "fault", Op: "rebind-to-honeypot", Cid: cl.cid, Nid: id})
			hp := e.honeypot(cl, id)
			e.net.Rebind(n.addr, hp)
			for _, m := range cl.liveNodes() {
				e.net.BreakConns(m.label, n.label)
			}
			e.sleepHB(3, 6)
			e.net.Rebind(n.addr, n.lis)
			_ = hp.Close()
		case 4, 5: // the directory of a serving node is used again
			if n == nil || !n.alive() {
				continue
			}
			e.exclusive(cl, n)
		case 6:
			if n == nil || !n.alive() {
				continue
			}
			e.rc.emit(&ev.Rec{K: "fault", Op: "restart", Cid: cl.cid, Nid: id})
			// a duplicate start: a second instance is created while this one
			// serves (New is documented to answer ErrLockExists) ...
			early, errEarly := raft.New(cl.opt, newRecFSM(e.rc, n.dir+".early"), n.dir)
			{
				rec := &ev.Rec{K: "exclusive", Op: "new-while-serving"}
				if errEarly != nil {
					rec.Err = errEarly.Error()
				}
				e.rc.emitNode(n.dir, rec)
			}
			if errEarly == nil {
				e.sleepHB(1, 2) // the serving instance goes on; what the other one read is history
			}
			if n.shutdown(30 * time.Second) {
				if errEarly == nil {
					// ... and whoever holds it calls Serve once the lock is gone
					lis := e.net.Listen(fmt.Sprintf("early%d:1", e.cl.nextOp()), n.label+"early")
					done := make(chan error, 1)
					go func() { done <- early.Serve(lis) }()
					rec := &ev.Rec{K: "exclusive", Op: "early-instance-served-after-stop"}
					select {
					case err := <-done:
						if err != nil {
							rec.Err = err.Error()
						}
					case <-time.After(2 * e.hb()):
						rec.Note = "the instance created while the other one served is serving now, on the state it read then"
						ctx, cancel := context.WithTimeout(context.Background(), 10*time.Second)
						_ = early.Shutdown(ctx)
						cancel()
						<-done
					}
					e.rc.emitNode(n.dir, rec)
				}
				e.exclusiveIdle(cl, n)
				// an instance created now, while nobody serves the directory ...
				pre, errPre := raft.New(cl.opt, newRecFSM(e.rc, n.dir+".pre"), n.dir)
				nn, err := cl.start(id, n.dir)
				if err != nil {
					e.rc.emit(&ev.Rec{K: "restart-failed", Cid: cl.cid, Nid: id, Err: err.Error()})
				}
				locked := func() bool {
					_, err := os.Lstat(filepath.Join(n.dir, "lock"))
					return err == nil
				}
				if errPre == nil && err == nil && nn != nil && e.waitFor(40, locked) {
					// ... asks to serve it while the node does: refused, and the
					// node's claim on the directory is what it was
					lis := e.net.Listen(fmt.Sprintf("pre%d:1", e.cl.nextOp()), nn.label+"pre")
					done := make(chan error, 1)
					go func() { done <- pre.Serve(lis) }()
					rec := &ev.Rec{K: "exclusive", Op: "second-serve-while-serving", Note: "instance created before the node started"}
					select {
					case err := <-done:
						if err != nil {
							rec.Err = err.Error()
						}
					case <-time.After(10 * e.hb()):
						rec.Note = "second instance is serving"
						ctx, cancel := context.WithTimeout(context.Background(), 10*time.Second)
						_ = pre.Shutdown(ctx)
						cancel()
					}
					e.rc.emitNode(nn.dir, rec)
					e.exclusive(cl, nn)
				}
			}
		}
	}
	// cluster 2 winds down here; cluster 1 through the common path
	e.net.HealAll(false)
	e.sleepHB(4, 6)
	e.stopLoad()
	for _, n := range c2.liveNodes() {
		n.dump("final")
	}
	c2.shutdownAll()
	c2.stopBackground()
	e.stopClients = make(chan struct{})
	return e.finish()
}

// wireTalk: handshake naming (cid, nid), then requests on the same connection.
func (e *engineA) wireTalk(n *Node, cid, nid uint64) {
	info, ok := n.info(false)
	if !ok {
		return
	}
	src := uint64(91)
	p, resp, err := wireDial(e.net, "wire", src, n.addr, cid, nid, 2*e.hb())
	rec := &ev.Rec{K: "wire-handshake", Cid: n.cl.cid, Nid: n.nid, A: cid, B: nid, Res: resp.Result}
	if err != nil {
		rec.Err = err.Error()
	}
	e.rc.emit(rec)
	if err != nil || p == nil {
		return
	}
	defer p.close()
	// a vote request with a huge term would depose everybody if it were processed
	for _, m := range []raft.VerifMsg{
		{Kind: "vote", Term: info.Term + 1000, Src: src, A: info.LastLogIndex + 1000, B: info.LastLogTerm + 1000},
		{Kind: "timeoutNow", Term: info.Term, Src: src},
	} {
		r, err := p.call(m, nil, 2*e.hb())
		rec := &ev.Rec{K: "wire-request", Cid: n.cl.cid, Nid: n.nid, RPC: m.Kind, A: cid, B: nid, Res: r.Result}
		if err != nil {
			rec.Err = err.Error()
			e.rc.emit(rec)
			return
		}
		e.rc.emit(rec)
	}
}

// exclusive: attempts on a directory that is being served. Three steps, so
// that a rejected attempt that damages the lock shows in the next one.
func (e *engineA) exclusive(cl *Cluster, n *Node) {
	e.rc.emit(&ev.Rec{K: "fault", Op: "reuse-served-directory", Cid: cl.cid, Nid: n.nid})
	errStr := func(err error) string {
		if err == nil {
			return ""
		}
		return err.Error()
	}
	for round := 0; round < 2; round++ {
		// a second instance on the same directory
		r2, err := raft.New(cl.opt, newRecFSM(e.rc, n.dir+".ghost"), n.dir)
		if err != nil {
			e.rc.emitNode(n.dir, &ev.Rec{K: "exclusive", Op: "second-serve-while-serving", Err: err.Error(), Note: "New"})
		} else {
			lis := e.net.Listen(fmt.Sprintf("ghost%d:1", e.cl.nextOp()), n.label+"ghost")
			done := make(chan error, 1)
			go func() { done <- r2.Serve(lis) }()
			select {
			case err := <-done:
				e.rc.emitNode(n.dir, &ev.Rec{K: "exclusive", Op: "second-serve-while-serving", Err: errStr(err)})
			case <-time.After(10 * e.hb()):
				e.rc.emitNode(n.dir, &ev.Rec{K: "exclusive", Op: "second-serve-while-serving", Err: "", Note: "second instance is serving"})
				ctx, cancel := context.WithTimeout(context.Background(), 10*time.Second)
				_ = r2.Shutdown(ctx)
				cancel()
			}
		}
		e.rc.emitNode(n.dir, &ev.Rec{K: "exclusive", Op: "setidentity-same-while-serving", Err: errStr(raft.SetIdentity(n.dir, cl.cid, n.nid))})
		e.rc.emitNode(n.dir, &ev.Rec{K: "exclusive", Op: "setidentity-other-while-serving", Err: errStr(raft.SetIdentity(n.dir, cl.cid+7, n.nid+7))})
	}
}

// exclusiveIdle: attempts on the directory of a node that was shut down.
func (e *engineA) exclusiveIdle(cl *Cluster, n *Node) {
	errStr := func(err error) string {
		if err == nil {
			return ""
		}
		return err.Error()
	}
	e.rc.emitNode(n.dir, &ev.Rec{K: "exclusive", Op: "setidentity-same-after-stop", Err: errStr(raft.SetIdentity(n.dir, cl.cid, n.nid))})
	e.rc.emitNode(n.dir, &ev.Rec{K: "exclusive", Op: "setidentity-other-after-stop", Err: errStr(raft.SetIdentity(n.dir, cl.cid+7, n.nid))})
	e.rc.emitNode(n.dir, &ev.Rec{K: "exclusive", Op: "setidentity-other-after-stop", Err: errStr(raft.SetIdentity(n.dir, cl.cid, n.nid+7))})
	// read back through New
	if r, err := raft.New(cl.opt, newRecFSM(e.rc, n.dir+".probe"), n.dir); err == nil {
		e.rc.emitNode(n.dir, &ev.Rec{K: "exclusive", Op: "identity-after-attempts", Idx: r.CID(), Term: r.NID()})
	}
}

func init() {
	scenarios["wiped-follower"] = scenWipedFollower
	scenarios["transfer-faults"] = scenTransferFaults
}

// scenWipedFollower (C17): a follower loses its storage (disk replaced) and
// comes back under the same identity while the same leader stays in office.
func scenWipedFollower(e *engineA) error {
	e.prof = profiles["general"]
	if err := e.boot(3); err != nil {
		return err
	}
	e.cl.startInfoSampler(e.hb() / 2)
	l := e.cl.leader()
	if l == nil {
		return fmt.Errorf("no leader")
	}
	e.startClients(2, map[string]int{"update": 4, "read": 1})
	e.sleepHB(3, 6)
	f := e.others(l)[e.rng.Intn(2)]
	e.rc.emit(&ev.Rec{K: "fault", Op: "wipe-follower", Nid: f.nid})
	if !f.shutdown(30 * time.Second) {
		return fmt.Errorf("shutdown")
	}
	e.sleepHB(1, 3)
	if _, err := e.cl.start(f.nid, fmt.Sprintf("%s.wiped", f.dir)); err != nil {
		return err
	}
	e.sleepHB(6, 10)
	return e.finish()
}

// scenTransferFaults (C16): a leadership transfer with one message of the
// exchange lost - the connection carrying the k-th next write on one of the
// links leader->target, target->leader, target->third, third->target is
// reset - or held and released late.
func scenTransferFaults(e *engineA) error {
	e.prof = profiles["transfer"]
	n := 3 + e.rng.Intn(3)
	if err := e.boot(n); err != nil {
		return err
	}
	e.cl.startInfoSampler(e.hb() / 2)
	e.startClients(3, map[string]int{"update": 5, "read": 1, "barrier": 1})
	rounds := e.cfg.paramInt("rounds", 6)
	for i := 0; i < rounds; i++ {
		e.sleepHB(2, 4)
		l := e.cl.waitLeader(60 * e.hb())
		if l == nil {
			continue
		}
		os := e.others(l)
		t := os[e.rng.Intn(len(os))]
		third := os[(e.rng.Intn(len(os)-1)+1+indexOf(os, t))%len(os)]
		links := [][2]*Node{{l, t}, {t, l}, {t, third}, {third, t}}
		lk := links[e.rng.Intn(len(links))]
		k := int64(1 + e.rng.Intn(6))
		cur := e.net.WriteSeq(lk[0].label, lk[1].label)
		mode := e.rng.Intn(6)
		switch mode {
		case 4:
			// any target, and whichever node the leader picks first, the
			// connection to it is reset within its next writes: the leader has
			// to go on to another node
			for _, o := range os {
				e.net.BreakAt(l.label, o.label, e.net.WriteSeq(l.label, o.label)+int64(1+e.rng.Intn(3)))
			}
		case 5:
			// the target is told to time out now and says yes, but its vote
			// requests reach nobody (the link to the leader stalls right after
			// the reply): no new term appears and the leader has to try again
			var armed int32 = 1
			tdir, tl, ll := t.dir, t.label, l.label
			peers := e.cl.liveNodes()
			e.rc.setOnNodeEvent(func(dir string, r *ev.Rec) {
				if dir == tdir && r.K == "rpc" && r.RPC == "timeoutNow" && atomic.CompareAndSwapInt32(&armed, 1, 0) {
					e.net.StallAt(tl, ll, e.net.WriteSeq(tl, ll)+2)
					for _, o := range peers {
						if o.label != tl && o.label != ll {
							e.net.Cut(tl, o.label, true)
						}
					}
				}
			})
			extra := time.Duration(e.rng.Intn(200)) * time.Millisecond
			go func(t *Node) {
				time.Sleep(500*time.Millisecond + extra)
				e.rc.setOnNodeEvent(nil)
				for _, o := range peers {
					if o != t {
						e.net.StallAt(t.label, o.label, 0)
						e.net.Stall(t.label, o.label, false)
						e.net.Cut(t.label, o.label, false)
						e.net.Release(t.label, o.label, true)
					}
				}
			}(t)
		case 0:
			e.net.BreakAt(lk[0].label, lk[1].label, cur+k)
		case 1:
			e.net.StallAt(lk[0].label, lk[1].label, cur+k)
		case 3:
			// the target cannot be reached, so the transfer stays pending; then
			// the leader loses its quorum and steps down without a higher term
			e.cutBoth(l, t, true)
			wait := time.Duration(1+e.rng.Intn(2)) * e.hb()
			go func(l *Node) {
				time.Sleep(wait)
				e.isolate(l, true)
				time.Sleep(6 * e.hb())
				e.isolate(l, false)
			}(l)
		}
		e.rc.emit(&ev.Rec{K: "fault", Op: fmt.Sprintf("transfer-with-fault-mode%d", mode), Nid: l.nid, ID: t.nid, Idx: uint64(k), Note: fmt.Sprintf("%d->%d", lk[0].nid, lk[1].nid)})
		target := t.nid
		if (e.rng.Intn(3) == 0 && mode != 3 && mode != 5) || mode == 4 {
			target = 0
		}
		done := make(chan struct{})
		tmo := time.Duration(2+e.rng.Intn(6)) * e.hb()
		if mode == 3 {
			tmo = 30 * e.hb()
		}
		if mode == 5 {
			tmo = time.Second + 10*e.hb()
		}
		go func() {
			e.cl.transfer(l, target, tmo)
			close(done)
		}()
		select {
		case <-done:
		case <-time.After(40*e.hb() + time.Second):
		}
		e.sleepHB(1, 3)
		if mode == 3 {
			e.sleepHB(6, 8)
			e.cutBoth(l, t, false)
		}
		for _, o := range os {
			e.net.BreakAt(l.label, o.label, 0)
		}
		e.net.BreakAt(lk[0].label, lk[1].label, 0)
		e.net.StallAt(lk[0].label, lk[1].label, 0)
		e.net.Stall(lk[0].label, lk[1].label, false)
		e.net.Release(lk[0].label, lk[1].label, e.rng.Intn(2) == 0)
	}
	return e.finish()
}

func indexOf(ns []*Node, n *Node) int {
	for i, x := range ns {
		if x == n {
			return i
		}
	}
	return 0
}

func init() { scenarios["compaction-grid"] = scenCompactionGrid }

// scenCompactionGrid (C09): a follower is left behind at a seeded position
// (entries have a fixed size, so positions fall before / on / after segment
// boundaries), either unreachable (cut) or reachable but silent (stalled);
// the rest goes on, snapshots are taken on the leader and / or the other
// follower, logs are compacted; more updates; the follower comes back and
// must be brought up to date by entries or by snapshot; nodes are restarted
// from snapshot + log suffix.
func scenCompactionGrid(e *engineA) error {
	e.prof = profiles["snapshot"]
	if err := e.boot(3); err != nil {
		return err
	}
	e.cl.startInfoSampler(e.hb() / 2)
	l := e.cl.leader()
	if l == nil {
		return fmt.Errorf("no leader")
	}
	pad := 90 + 10*e.rng.Intn(4)
	n1 := 3 + e.rng.Intn(30)
	n2 := 10 + e.rng.Intn(40)
	n3 := e.rng.Intn(12)
	cut := e.rng.Intn(2) == 0
	who := e.rng.Intn(3) // 0 leader, 1 follower, 2 both
	for i := 0; i < n1; i++ {
		e.cl.fsmOpPad(1, l, "update", pad)
	}
	fs := e.others(l)
	f, o := fs[0], fs[1]
	e.rc.emit(&ev.Rec{K: "fault", Op: fmt.Sprintf("grid n1=%d n2=%d n3=%d cut=%v who=%d pad=%d", n1, n2, n3, cut, who, pad), Nid: f.nid})
	if cut {
		e.isolate(f, true)
	} else {
		e.net.Stall(l.label, f.label, true)
		e.net.Stall(o.label, f.label, true)
	}
	for i := 0; i < n2; i++ {
		if r := e.cl.fsmOpPad(1, l, "update", pad); !r.ok {
			break
		}
	}
	e.sleepHB(3, 5)
	if who == 0 || who == 2 {
		e.cl.takeSnapshot(l, 0)
	}
	if who == 1 || who == 2 {
		e.cl.takeSnapshot(o, 0)
	}
	e.sleepHB(2, 4)
	for i := 0; i < n3; i++ {
		if r := e.cl.fsmOpPad(1, l, "update", pad); !r.ok {
			break
		}
	}
	if e.rng.Intn(2) == 0 {
		// a second snapshot moves the boundary again
		e.cl.takeSnapshot(l, 0)
		e.sleepHB(1, 2)
	}
	e.rc.emit(&ev.Rec{K: "fault", Op: "grid-heal", Nid: f.nid})
	if cut {
		e.isolate(f, false)
	} else {
		e.net.Stall(l.label, f.label, false)
		e.net.Stall(o.label, f.label, false)
		drop := e.rng.Intn(2) == 0
		e.net.Release(l.label, f.label, drop)
		e.net.Release(o.label, f.label, drop)
	}
	e.startClients(2, map[string]int{"update": 3, "read": 1})
	e.sleepHB(4, 8)
	// restart from snapshot + suffix
	for _, n := range e.cl.liveNodes() {
		if e.rng.Intn(2) == 0 {
			e.rc.emit(&ev.Rec{K: "fault", Op: "restart", Nid: n.nid})
			if _, err := e.cl.restart(n.nid); err != nil {
				e.rc.emit(&ev.Rec{K: "restart-failed", Cid: e.cl.cid, Nid: n.nid, Err: err.Error()})
			}
			e.sleepHB(1, 3)
		}
	}
	return e.finish()
}

func init() { scenarios["stale-queue-reelection"] = scenStaleQueueReelection }

// scenStaleQueueReelection (C07 / C03): a leader loses leadership while an
// update is pending at index k; another leader writes its own entry at k,
// which reaches the old leader but is not yet known to be committed there;
// the old leader is elected again (told to time out now), so that its new
// no-op lands at k+1. Whatever the old leader still holds for index k from
// its first leadership must not reach its state machine.
func scenStaleQueueReelection(e *engineA) error {
	e.prof = profiles["general"]
	if err := e.boot(3); err != nil {
		return err
	}
	e.cl.startInfoSampler(e.hb() / 2)
	l := e.cl.leader()
	if l == nil {
		return fmt.Errorf("no leader")
	}
	for i := 0; i < 3+e.rng.Intn(3); i++ {
		e.cl.fsmOp(1, l, "update")
	}
	e.sleepHB(1, 2)
	base, _ := l.info(false)
	k := base.LastLogIndex + 1
	e.rc.emit(&ev.Rec{K: "fault", Op: "isolate-leader-with-pending-update", Nid: l.nid, Idx: k})
	fs := e.others(l)
	// the next leader is separated from the third node the moment it is
	// elected: its entry at k will not be committed
	var n, o *Node
	var nset int32
	e.rc.setOnNodeEvent(func(dir string, r *ev.Rec) {
		if r.K == "state" && r.St != nil && r.St.State == "L" && dir != l.dir && atomic.CompareAndSwapInt32(&nset, 0, 1) {
			for i, f := range fs {
				if f.dir == dir {
					n, o = f, fs[1-i]
				}
			}
			if n != nil {
				e.net.Cut(n.label, o.label, true)
				e.net.Cut(o.label, n.label, true)
			}
		}
	})
	e.isolate(l, true)
	go e.cl.fsmOp(2, l, "update") // exactly one: the re-elected leader's no-op must land right behind it
	if !e.waitFor(100, func() bool { return atomic.LoadInt32(&nset) == 1 }) || n == nil {
		e.rc.setOnNodeEvent(nil)
		return fmt.Errorf("no second leader")
	}
	e.waitFor(40, func() bool {
		info, ok := l.info(false)
		return ok && info.State != raft.Leader
	})
	// ... and the moment its entry at k reaches l, l is cut off from it again
	var got int32
	e.rc.setOnNodeEvent(func(dir string, r *ev.Rec) {
		if dir == l.dir && r.K == "append" && r.E != nil && r.E.Index >= k && r.St != nil && r.St.State == "F" && atomic.CompareAndSwapInt32(&got, 0, 1) {
			e.net.Cut(n.label, l.label, true)
			e.net.Cut(l.label, n.label, true)
		}
	})
	e.rc.emit(&ev.Rec{K: "fault", Op: "heal-old-leader-to-new", Nid: l.nid, ID: n.nid})
	e.cutBoth(l, n, false)
	ok := e.waitFor(60, func() bool { return atomic.LoadInt32(&got) == 1 })
	e.rc.setOnNodeEvent(nil)
	if !ok {
		return fmt.Errorf("new leader's entry never reached the old leader")
	}
	e.sleepHB(0.5, 1)
	// l and o can talk; l is told to take over
	e.rc.emit(&ev.Rec{K: "fault", Op: "timeout-now-old-leader", Nid: l.nid})
	e.cutBoth(l, o, false)
	e.wireTimeoutNow(l)
	e.waitFor(60, func() bool {
		info, ok := l.info(false)
		return ok && info.State == raft.Leader
	})
	for i := 0; i < 3; i++ {
		e.cl.fsmOp(1, l, "update")
		e.cl.fsmOp(1, l, "read")
	}
	e.sleepHB(1, 2)
	e.startClients(2, map[string]int{"update": 3, "read": 2})
	e.sleepHB(3, 6)
	return e.finish()
}

// honeypot: a peer that answers the identity handshake with a mismatch but
// does not hang up. A dialer of the library must not send anything else on
// that connection; whatever arrives is recorded.
func (e *engineA) honeypot(cl *Cluster, id uint64) *memnet.Listener {
	lis := e.net.Listen(fmt.Sprintf("honeypot%d:1", cl.nextOp()), fmt.Sprintf("honeypot-c%dn%d", cl.cid, id))
	go func() {
		for {
			c, err := lis.Accept()
			if err != nil {
				return
			}
			go func(c net.Conn) {
				defer c.Close()
				br := bufio.NewReader(c)
				refused := false
				for {
					_ = c.SetReadDeadline(time.Now().Add(20 * e.hb()))
					b, err := br.ReadByte()
					if err != nil {
						return
					}
					if int(b) > 4 {
						return
					}
					kind := []string{"identity", "vote", "append", "installSnap", "timeoutNow"}[int(b)]
					req, err := raft.VerifDecodeReq(kind, br)
					if err != nil {
						return
					}
					if kind == "identity" && !refused {
						refused = true
						out, _ := raft.VerifEncodeResp(raft.VerifMsg{Kind: "identity", Result: "identityMismatch"})
						if _, err := c.Write(out); err != nil {
							return
						}
						e.rc.emit(&ev.Rec{K: "honeypot-handshake", Cid: cl.cid, Nid: id, Src: req.Src, A: req.A, B: req.B})
						continue
					}
					// anything after the refused handshake
					e.rc.emit(&ev.Rec{K: "honeypot-request", Cid: cl.cid, Nid: id, RPC: kind, Src: req.Src, ReqTerm: req.Term})
					return
				}
			}(c)
		}
	}()
	return lis
}

func init() { scenarios["install-crash"] = scenInstallCrash }

// scenInstallCrash (C10 / C09): a follower that holds a non-empty log which
// ends before the leader's snapshot index is brought back by snapshot
// installation and is killed inside the installation: after the snapshot was
// published but before the log was dealt with (install.stored), or right
// after (install.logHandled), or inside the log reset. The restart must give
// a snapshot and a log that fit together, and the node must be brought up to
// date again by the same leader.
func scenInstallCrash(e *engineA) error {
	e.prof = profiles["snapshot"]
	if err := e.boot(3); err != nil {
		return err
	}
	e.cl.startInfoSampler(e.hb() / 2)
	l := e.cl.leader()
	if l == nil {
		return fmt.Errorf("no leader")
	}
	pad := 90 + 10*e.rng.Intn(4)
	for i := 0; i < 3+e.rng.Intn(20); i++ {
		e.cl.fsmOpPad(1, l, "update", pad)
	}
	f := e.others(l)[e.rng.Intn(2)]
	pts := []string{"install.stored", "install.stored", "install.logHandled", "log.reset.each", "log.reset.last", "log.reset.last", "log.reset.created", "clearLog", "cut-mid-snapshot", "cut-mid-snapshot"}
	pt := pts[e.rng.Intn(len(pts))]
	e.rc.emit(&ev.Rec{K: "fault", Op: "install-crash at " + pt, Nid: f.nid})
	e.isolate(f, true)
	for i := 0; i < 15+e.rng.Intn(40); i++ {
		if r := e.cl.fsmOpPad(1, l, "update", pad); !r.ok {
			break
		}
	}
	e.sleepHB(3, 5)
	e.cl.takeSnapshot(l, 0)
	e.waitFor(30, func() bool {
		info, ok := l.info(false)
		return ok && info.FirstLogIndex > 4
	})
	for i := 0; i < e.rng.Intn(6); i++ {
		e.cl.fsmOpPad(1, l, "update", pad)
	}
	occ := 1
	if pt == "log.reset.each" {
		occ = 1 + e.rng.Intn(4)
	}
	if pt == "log.reset.last" {
		// after the last segment file is gone and before the new one exists:
		// the directory holds no log at all
		segs, _ := filepath.Glob(filepath.Join(f.dir, "log", "*.log"))
		pt, occ = "log.reset.each", len(segs)
		if occ == 0 {
			occ = 1
		}
	}
	if pt == "cut-mid-snapshot" {
		// no kill: the leader's side of the connection goes away somewhere in
		// the snapshot it is sending (handshake and the first requests are a
		// few hundred bytes; the snapshot holds every update so far). Nothing
		// of a snapshot that was not received whole may become visible.
		info, _ := l.info(false)
		size := int(info.LastLogIndex) * (pad + 8)
		e.net.CutAfter(l.label, f.label, int64(150+e.rng.Intn(size)))
		e.isolate(f, false)
		e.sleepHB(6, 10)
	} else {
		e.pc.planCrash(f.dir, pt, occ)
		e.isolate(f, false)
		e.waitFor(60, func() bool { return f.isCrashed() })
	}
	e.sleepHB(1, 3)
	e.cl.recoverCrashed()
	e.startClients(2, map[string]int{"update": 3, "read": 1})
	e.sleepHB(6, 10)
	return e.finish()
}

func init() { scenarios["bootstrap-crash"] = scenBootstrapCrash }

// scenBootstrapCrash (C10): the node that is given the initial configuration
// is killed inside the bootstrap (entry appended / flushed / term stored);
// it restarts on the image and the cluster is bootstrapped again if the
// restarted node does not know a configuration. Either way the cluster must
// come up and the node's storage must be usable.
func scenBootstrapCrash(e *engineA) error {
	e.prof = profiles["general"]
	ids := []uint64{1, 2, 3}
	e.ids = ids
	for _, id := range ids {
		if _, err := e.cl.start(id, e.cl.dirOf(id)); err != nil {
			return err
		}
	}
	e.cl.startTicker()
	e.tickCounter()
	pts := []string{"bootstrap.appended", "bootstrap.flushed", "bootstrap.termset", "seg.sync.data", "seg.sync.headerWritten", "seg.appended"}
	pt := pts[e.rng.Intn(len(pts))]
	n1 := e.cl.node(1)
	e.rc.emit(&ev.Rec{K: "fault", Op: "bootstrap-crash at " + pt, Nid: 1})
	e.pc.planCrash(n1.dir, pt, 1)
	conf := raft.Config{Nodes: map[uint64]raft.Node{}}
	for _, id := range ids {
		if err := conf.AddVoter(id, e.cl.addrOf(id)); err != nil {
			return err
		}
	}
	e.cl.submitConfig(n1, "bootstrap", conf)
	e.waitFor(10, func() bool { return n1.isCrashed() })
	e.cl.recoverCrashed()
	n1 = e.cl.node(1)
	if n1 == nil {
		return fmt.Errorf("node 1 did not come back")
	}
	if info, ok := n1.info(true); ok && len(info.Configs.Latest.Nodes) == 0 {
		e.rc.emit(&ev.Rec{K: "fault", Op: "bootstrap-again", Nid: 1})
		if err := e.cl.submitConfig(n1, "bootstrap", conf); err != nil {
			return fmt.Errorf("second bootstrap: %v", err)
		}
	}
	if l := e.cl.waitLeader(200 * e.hb()); l == nil {
		return fmt.Errorf("no leader after bootstrap")
	}
	e.cl.startInfoSampler(e.hb() / 2)
	e.startClients(2, map[string]int{"update": 3, "read": 1})
	e.sleepHB(4, 8)
	return e.finish()
}

func init() { scenarios["bootstrap-after-vote"] = scenBootstrapAfterVote }

// scenBootstrapAfterVote (C15): the operator gives the initial configuration
// to one node, which starts campaigning but cannot reach a majority yet; a
// second node, which has meanwhile granted its vote (its term has advanced),
// is given the same configuration. The request may be refused or carried
// out; the node must survive it and the cluster must come up.
func scenBootstrapAfterVote(e *engineA) error {
	e.prof = profiles["general"]
	ids := []uint64{1, 2, 3, 4, 5}
	e.ids = ids
	for _, id := range ids {
		if _, err := e.cl.start(id, e.cl.dirOf(id)); err != nil {
			return err
		}
	}
	e.cl.startTicker()
	e.tickCounter()
	n1, n2 := e.cl.node(1), e.cl.node(2)
	for _, id := range ids[2:] {
		o := e.cl.node(id)
		e.net.Cut(n1.label, o.label, true)
		e.net.Cut(o.label, n1.label, true)
	}
	conf := raft.Config{Nodes: map[uint64]raft.Node{}}
	for _, id := range ids {
		if err := conf.AddVoter(id, e.cl.addrOf(id)); err != nil {
			return err
		}
	}
	if err := e.cl.submitConfig(n1, "bootstrap", conf); err != nil {
		return fmt.Errorf("bootstrap: %v", err)
	}
	if !e.waitFor(60, func() bool {
		info, ok := n2.info(false)
		return ok && info.Term >= 2 && !info.Configs.IsBootstrapped()
	}) {
		return fmt.Errorf("node 2 did not vote")
	}
	e.rc.emit(&ev.Rec{K: "fault", Op: "bootstrap-of-a-node-that-has-voted", Nid: 2})
	err := e.cl.submitConfig(n2, "bootstrap", conf)
	e.rc.emit(&ev.Rec{K: "lifecycle", Op: "bootstrap-after-vote", Kind: "returned", Note: fmt.Sprint(err), Cid: e.cl.cid})
	e.net.HealAll(true)
	if l := e.cl.waitLeader(200 * e.hb()); l == nil {
		return fmt.Errorf("no leader after bootstrap")
	}
	e.cl.startInfoSampler(e.hb() / 2)
	e.startClients(2, map[string]int{"update": 3, "read": 1})
	e.sleepHB(4, 8)
	return e.finish()
}

func init() { scenarios["window-crash"] = scenWindowCrash }

// scenWindowCrash (C10 / C09): kill a node inside the windows that random
// arming rarely reaches. Mode 0: a snapshot is taken on a node with a log of
// several segments and the node is killed while the snapshot is published or
// while the log is compacted segment by segment. Mode 1: an isolated
// ex-leader with an uncommitted tail of several segments is healed and
// killed inside the truncation of that tail.
func scenWindowCrash(e *engineA) error {
	e.prof = profiles["snapshot"]
	if err := e.boot(3); err != nil {
		return err
	}
	e.cl.startInfoSampler(e.hb() / 2)
	l := e.cl.leader()
	if l == nil {
		return fmt.Errorf("no leader")
	}
	pad := 90 + 10*e.rng.Intn(4)
	var target *Node
	for i := 0; i < 20+e.rng.Intn(40); i++ {
		e.cl.fsmOpPad(1, l, "update", pad)
	}
	if e.rng.Intn(2) == 0 {
		pts := []string{"snap.beforePublish", "snap.renamed", "snap.published", "compact", "log.removeLTE.each", "log.removeLTE.each", "fsm.beforeSnap"}
		pt := pts[e.rng.Intn(len(pts))]
		occ := 1
		if pt == "log.removeLTE.each" {
			occ = 1 + e.rng.Intn(4)
		}
		x := l
		if e.rng.Intn(2) == 0 {
			x = e.others(l)[0]
		}
		e.sleepHB(2, 3)
		e.rc.emit(&ev.Rec{K: "fault", Op: "directed-crash at " + pt, Nid: x.nid})
		target = x
		e.pc.planCrash(x.dir, pt, occ)
		go e.cl.takeSnapshot(x, 0)
		e.waitFor(40, func() bool { return x.isCrashed() })
	} else {
		pts := []string{"removeGTE", "log.removeGTE.each", "log.removeGTE.each", "log.removeGTE.created", "seg.removeGTE.header"}
		pt := pts[e.rng.Intn(len(pts))]
		occ := 1
		if pt == "log.removeGTE.each" {
			occ = 1 + e.rng.Intn(3)
		}
		if _, err := e.staleTail(l, 3+e.rng.Intn(30), pad); err != nil {
			return err
		}
		e.waitFor(20, func() bool {
			info, ok := l.info(false)
			return ok && info.State != raft.Leader
		})
		e.rc.emit(&ev.Rec{K: "fault", Op: "directed-crash at " + pt, Nid: l.nid})
		target = l
		e.pc.planCrash(l.dir, pt, occ)
		e.isolate(l, false)
		e.waitFor(60, func() bool { return l.isCrashed() })
	}
	e.sleepHB(1, 3)
	if !target.isCrashed() {
		e.pc.cancelCrash(target.dir)
	}
	e.cl.recoverCrashed()
	e.startClients(2, map[string]int{"update": 3, "read": 1})
	e.sleepHB(5, 9)
	return e.finish()
}

func init() { scenarios["promote-idle"] = scenPromoteIdle }

// scenPromoteIdle (C17, leader stability): membership changes (a node is
// added and promoted, or a voter is demoted and promoted again) followed by
// periods without any load and without any fault. A voter that the leader
// keeps serving has no reason to campaign, and the next update must be
// accepted by the same leader.
func scenPromoteIdle(e *engineA) error {
	e.prof = profiles["member"]
	if err := e.boot(3); err != nil {
		return err
	}
	e.cl.startInfoSampler(e.hb() / 2)
	l := e.cl.leader()
	if l == nil {
		return fmt.Errorf("no leader")
	}
	for i := 0; i < 3; i++ {
		e.cl.fsmOp(1, l, "update")
	}
	quiet := func() {
		// the load that ran during the change stops; whatever the leader told
		// its replications while it was busy has to be right now that nothing
		// else will be sent
		e.stopLoad()
		e.stopClients = make(chan struct{})
		for _, n := range e.cl.liveNodes() {
			e.pc.setSlow(n.dir, "repl.beforeRead", 0)
		}
		e.sleepHB(0.5, 1)
		e.rc.emit(&ev.Rec{K: "quiet-begin"})
		e.sleepHB(5, 8)
		e.rc.emit(&ev.Rec{K: "quiet-end"})
		if cur := e.cl.leader(); cur != nil {
			e.cl.fsmOp(1, cur, "update")
		}
	}
	for round := 0; round < 2+e.rng.Intn(2); round++ {
		cur := e.cl.leader()
		if cur == nil {
			break
		}
		if e.rng.Intn(3) != 0 {
			// the change happens under write load (the leader tells its
			// replications about new entries all the time)
			e.startClients(8, map[string]int{"update": 1})
			if e.rng.Intn(4) != 0 {
				// and its replications are slow to pick up what they are told
				// (several messages of the leader pile up for them)
				e.pc.setSlow(cur.dir, "repl.beforeRead", e.hb()/time.Duration(3+e.rng.Intn(5)))
			}
			e.sleepHB(1, 2)
		}
		switch e.rng.Intn(3) {
		case 0: // a new node joins and is promoted
			conf := raft.Config{}
			if info, ok := cur.info(false); ok {
				conf = info.Configs.Latest
			}
			id := e.newNodeID(&conf)
			if id == 0 {
				continue
			}
			e.rc.emit(&ev.Rec{K: "fault", Op: "add-and-promote", Nid: id})
			e.cl.changeConfig(cur, fmt.Sprintf("add(%d,promote=true)", id), func(c *raft.Config) error {
				return c.AddNonvoter(id, e.cl.addrOf(id), true)
			})
			e.waitFor(60, func() bool {
				info, ok := cur.info(false)
				return ok && info.Configs.IsStable() && info.Configs.IsCommitted() && info.Configs.Latest.Nodes[id].Voter
			})
		case 1: // a voter is demoted, then promoted again
			var x *Node
			for _, f := range e.others(cur) {
				if info, ok := cur.info(false); ok && info.Configs.Latest.Nodes[f.nid].Voter {
					x = f
				}
			}
			if x == nil {
				continue
			}
			e.rc.emit(&ev.Rec{K: "fault", Op: "demote-then-promote", Nid: x.nid})
			e.cl.changeConfig(cur, fmt.Sprintf("demote(%d)", x.nid), func(c *raft.Config) error { return c.SetAction(x.nid, raft.Demote) })
			e.waitFor(40, func() bool {
				info, ok := cur.info(false)
				return ok && info.Configs.IsStable() && info.Configs.IsCommitted()
			})
			quiet()
			if cur = e.cl.leader(); cur == nil {
				continue
			}
			e.cl.changeConfig(cur, fmt.Sprintf("promote(%d)", x.nid), func(c *raft.Config) error { return c.SetAction(x.nid, raft.Promote) })
			e.waitFor(60, func() bool {
				info, ok := cur.info(false)
				return ok && info.Configs.IsStable() && info.Configs.IsCommitted()
			})
		case 2: // a node's data changes (a configuration entry that changes no role)
			x := e.others(cur)[0]
			e.rc.emit(&ev.Rec{K: "fault", Op: "setdata", Nid: x.nid})
			e.cl.changeConfig(cur, fmt.Sprintf("setdata(%d)", x.nid), func(c *raft.Config) error { return c.SetData(x.nid, "x") })
		}
		quiet()
	}
	return e.finish()
}

func init() { scenarios["readd-removed"] = scenReaddRemoved }

// scenReaddRemoved (C17): a member is removed and shuts itself down; the
// cluster goes on; later the same node, with its old storage, is added again
// and started by the operator. It must be brought up to date like any other
// lagging node.
func scenReaddRemoved(e *engineA) error {
	e.prof = profiles["member"]
	if err := e.boot(3 + e.rng.Intn(2)); err != nil {
		return err
	}
	e.cl.startInfoSampler(e.hb() / 2)
	l := e.cl.leader()
	if l == nil {
		return fmt.Errorf("no leader")
	}
	for i := 0; i < 5+e.rng.Intn(20); i++ {
		e.cl.fsmOp(1, l, "update")
	}
	fs := e.others(l)
	x := fs[e.rng.Intn(len(fs))]
	if e.rng.Intn(3) != 0 {
		// the leader removes itself: it certainly holds the entry that
		// removes it (a follower only does if the entry was on its way when
		// the leader stopped talking to it)
		x = l
	}
	act := raft.Remove
	if e.rng.Intn(3) == 0 {
		act = raft.ForceRemove
	}
	e.rc.emit(&ev.Rec{K: "fault", Op: fmt.Sprintf("%v-then-add-again", act), Nid: x.nid})
	// under load the replication pipeline is busy: the entry that removes the
	// node can reach it before the leader stops talking to it
	e.startClients(4, map[string]int{"update": 1})
	e.sleepHB(1, 2)
	if err := e.cl.changeConfig(l, fmt.Sprintf("%v(%d)", act, x.nid), func(c *raft.Config) error { return c.SetAction(x.nid, act) }); err != nil && x != l {
		return fmt.Errorf("remove: %v", err)
	}
	e.waitFor(60, func() bool {
		cur := e.cl.leader()
		if cur == nil || cur == x {
			return false
		}
		info, ok := cur.info(false)
		_, in := info.Configs.Latest.Nodes[x.nid]
		return ok && !in && info.Configs.IsCommitted()
	})
	e.waitFor(40, func() bool { return atomic.LoadInt32(&x.exited) != 0 })
	if atomic.LoadInt32(&x.exited) == 0 {
		// (a removed node may not learn of it: the operator stops it)
		x.shutdown(30 * time.Second)
	}
	e.sleepHB(1, 6)
	e.stopLoad()
	e.stopClients = make(chan struct{})
	if l = e.cl.waitLeader(100 * e.hb()); l == nil {
		return fmt.Errorf("no leader after the removal")
	}
	promote := e.rng.Intn(2) == 0
	if err := e.cl.changeConfig(l, fmt.Sprintf("add(%d,promote=%v) again", x.nid, promote), func(c *raft.Config) error {
		return c.AddNonvoter(x.nid, e.cl.addrOf(x.nid), promote)
	}); err != nil {
		return fmt.Errorf("add again: %v", err)
	}
	if _, err := e.cl.start(x.nid, x.dir); err != nil {
		e.rc.emit(&ev.Rec{K: "restart-failed", Cid: e.cl.cid, Nid: x.nid, Err: err.Error()})
	}
	e.startClients(2, map[string]int{"update": 3, "read": 1})
	e.sleepHB(4, 8)
	return e.finish()
}

func init() { scenarios["snapshot-vs-install"] = scenSnapshotVsInstall }

// scenSnapshotVsInstall (C19 / C09 / C10): a follower is asked for a snapshot;
// the state is captured, and before the file is written the follower falls
// behind a compaction and is brought back by snapshot installation. Then the
// snapshot it had started is finished. The older snapshot must not replace
// the newer one: the snapshot index does not go back, a restart finds a
// snapshot and a log that fit, and the node stays usable.
func scenSnapshotVsInstall(e *engineA) error {
	e.prof = profiles["snapshot"]
	if err := e.boot(3); err != nil {
		return err
	}
	e.cl.startInfoSampler(e.hb() / 2)
	l := e.cl.leader()
	if l == nil {
		return fmt.Errorf("no leader")
	}
	pad := 90 + 10*e.rng.Intn(4)
	for i := 0; i < 5+e.rng.Intn(15); i++ {
		e.cl.fsmOpPad(1, l, "update", pad)
	}
	f := e.others(l)[e.rng.Intn(2)]
	if e.rng.Intn(3) == 0 {
		// the node whose snapshot is held is the leader: cut off, it is
		// replaced, and comes back as a follower that needs the new
		// leader's snapshot
		f = l
	}
	e.sleepHB(1, 2)
	// held either right after the capture, or after the label was written
	// to its temporary file and before it is renamed into place (the
	// installation writes a label of its own meanwhile)
	holdAt := "snap.captured"
	switch e.rng.Intn(4) {
	case 0:
		holdAt = "snap.beforePublish"
	case 1:
		// while the state is being written: the snapshot's file exists, it
		// knows which snapshot was current when it began, nothing is published
		holdAt = "fsm.persist"
	}
	e.rc.emit(&ev.Rec{K: "fault", Op: "snapshot-held-after-capture", Nid: f.nid, Note: holdAt})
	hit := e.pc.hold(f.dir, holdAt)
	go e.cl.takeSnapshot(f, 0)
	select {
	case <-hit:
	case <-time.After(40 * e.hb()):
		e.pc.release(f.dir, holdAt)
		return fmt.Errorf("snapshot goroutine never reached the capture point")
	}
	e.isolate(f, true)
	if f == l {
		var nl *Node
		if !e.waitFor(100, func() bool {
			for _, o := range e.others(f) {
				if info, ok := o.info(false); ok && info.State == raft.Leader {
					nl = o
					return true
				}
			}
			return false
		}) {
			e.pc.release(f.dir, holdAt)
			return fmt.Errorf("the others elected no leader")
		}
		l = nl
	}
	for i := 0; i < 15+e.rng.Intn(30); i++ {
		if r := e.cl.fsmOpPad(1, l, "update", pad); !r.ok {
			break
		}
	}
	e.sleepHB(4, 5)
	e.cl.takeSnapshot(l, 0)
	e.waitFor(30, func() bool {
		info, ok := l.info(false)
		return ok && info.FirstLogIndex > 4
	})
	linfo, _ := l.info(false)
	e.rc.emit(&ev.Rec{K: "fault", Op: "heal-then-finish-old-snapshot", Nid: f.nid})
	e.isolate(f, false)
	if holdAt == "snap.captured" || holdAt == "fsm.persist" {
		e.waitFor(60, func() bool {
			info, ok := f.info(false)
			return ok && info.SnapshotIndex >= linfo.SnapshotIndex && linfo.SnapshotIndex > 0
		})
	} else {
		// (the installation itself waits behind the held publication)
		e.sleepHB(4, 6)
	}
	e.pc.release(f.dir, holdAt)
	e.sleepHB(2, 4)
	for i := 0; i < 3; i++ {
		e.cl.fsmOpPad(1, l, "update", pad)
	}
	f.info(true)
	if e.rng.Intn(2) == 0 {
		// the follower labels its next snapshot itself
		e.cl.takeSnapshot(f, 0)
		e.sleepHB(1, 2)
	}
	if e.rng.Intn(2) == 0 {
		e.rc.emit(&ev.Rec{K: "fault", Op: "restart", Nid: f.nid})
		if _, err := e.cl.restart(f.nid); err != nil {
			e.rc.emit(&ev.Rec{K: "restart-failed", Cid: e.cl.cid, Nid: f.nid, Err: err.Error()})
		}
	} else {
		// no restart: the node takes over as it is and has to bring a new
		// member up to date - by snapshot, its log begins where the installed
		// one ended
		e.rc.emit(&ev.Rec{K: "fault", Op: "lead-after-both-snapshots-and-serve-a-new-node", Nid: f.nid})
		for try := 0; try < 3; try++ {
			cur := e.cl.waitLeader(100 * e.hb())
			if cur == nil || cur == f {
				break
			}
			e.cl.transfer(cur, f.nid, 20*e.hb())
			e.sleepHB(2, 3)
		}
		if nl := e.cl.waitLeader(100 * e.hb()); nl != nil {
			if info, ok := nl.info(false); ok {
				conf := info.Configs.Latest
				if id := e.newNodeID(&conf); id != 0 {
					e.cl.changeConfig(nl, fmt.Sprintf("add(%d,promote=true)", id), func(c *raft.Config) error {
						return c.AddNonvoter(id, e.cl.addrOf(id), true)
					})
				}
			}
		}
		e.sleepHB(4, 6)
	}
	e.startClients(2, map[string]int{"update": 3, "read": 1})
	e.sleepHB(4, 8)
	return e.finish()
}

func init() { scenarios["slow-fsm"] = scenSlowFSM }

// scenSlowFSM (C07 / C03): the leader's state machine is slow, so that
// entries are committed well before they are applied. Barriers and reads are
// submitted in exactly that window (everything accepted is committed, not
// everything is applied), also while followers lag or leadership moves.
func scenSlowFSM(e *engineA) error {
	e.prof = profiles["load"]
	if err := e.boot(3); err != nil {
		return err
	}
	e.cl.startInfoSampler(e.hb() / 2)
	l := e.cl.leader()
	if l == nil {
		return fmt.Errorf("no leader")
	}
	for i := 0; i < 3; i++ {
		e.cl.fsmOp(1, l, "update")
	}
	e.rc.emit(&ev.Rec{K: "fault", Op: "slow-state-machine", Nid: l.nid})
	e.pc.setSlow(l.dir, "fsm.beforeApply", e.hb()/3)
	for round := 0; round < 8+e.rng.Intn(8); round++ {
		cur := e.cl.leader()
		if cur == nil {
			e.sleepHB(1, 2)
			continue
		}
		if cur != l {
			e.pc.setSlow(cur.dir, "fsm.beforeApply", e.hb()/3)
			l = cur
		}
		k := 1 + e.rng.Intn(3)
		// the window: all of the leader's log is committed, not all of it is
		// applied. (A status request would not show it: it is answered
		// through the state machine's queue.) The leader's own commit event
		// for its last entry opens it.
		window := make(chan struct{}, 1)
		curDir := cur.dir
		var commits int32
		e.rc.setOnNodeEvent(func(dir string, r *ev.Rec) {
			if dir == curDir && r.K == "commit" && r.St != nil && r.St.State == "L" && r.Idx == r.St.Last {
				if atomic.AddInt32(&commits, 1) >= int32(k) {
					select {
					case window <- struct{}{}:
					default:
					}
				}
			}
		})
		for i := 0; i < k; i++ {
			go e.cl.fsmOp(2+i, cur, "update")
			if i == 0 && round%3 == 1 {
				// a snapshot is asked for while updates are queued for the
				// state machine on both sides of the request: what it holds
				// and the index it is labelled with have to agree
				go e.cl.takeSnapshot(cur, 0)
			}
		}
		select {
		case <-window:
		case <-time.After(6 * e.hb()):
		}
		e.rc.setOnNodeEvent(nil)
		op := "barrier"
		if e.rng.Intn(3) == 0 {
			op = "read"
		}
		e.cl.fsmOp(9, cur, op)
		if e.rng.Intn(5) == 0 {
			e.fault([]string{"isolate-leader", "transfer", "stall"}[e.rng.Intn(3)])
		}
	}
	for _, n := range e.cl.liveNodes() {
		e.pc.setSlow(n.dir, "fsm.beforeApply", 0)
	}
	// one more snapshot, held right after the state was captured while the
	// state machine goes on applying: label and content belong to the moment
	// of the capture
	if cur := e.cl.leader(); cur != nil {
		l = cur
		hit := e.pc.hold(cur.dir, "snap.captured")
		go e.cl.takeSnapshot(cur, 0)
		select {
		case <-hit:
			for i := 0; i < 3+e.rng.Intn(4); i++ {
				e.cl.fsmOp(1, cur, "update")
			}
		case <-time.After(20 * e.hb()):
		}
		e.pc.release(cur.dir, "snap.captured")
	}
	// the node whose snapshots were taken under a backlog comes back from
	// its newest snapshot plus the log behind it
	e.sleepHB(2, 3)
	e.rc.emit(&ev.Rec{K: "fault", Op: "restart", Nid: l.nid})
	if _, err := e.cl.restart(l.nid); err != nil {
		e.rc.emit(&ev.Rec{K: "restart-failed", Cid: e.cl.cid, Nid: l.nid, Err: err.Error()})
	}
	e.sleepHB(2, 4)
	return e.finish()
}

func init() { scenarios["transfer-timeout-pending-action"] = scenTransferTimeoutPendingAction }

// scenTransferTimeoutPendingAction (C16): a membership action (promotion of
// a new node) is pending, a leadership transfer that cannot succeed (its
// target is down) runs into its timeout, and the action becomes ready while
// the transfer is in progress. When the transfer has failed the action must
// be carried out without any further request.
func scenTransferTimeoutPendingAction(e *engineA) error {
	e.prof = profiles["transfer"]
	if err := e.boot(3); err != nil {
		return err
	}
	e.cl.startInfoSampler(e.hb() / 2)
	l := e.cl.leader()
	if l == nil {
		return fmt.Errorf("no leader")
	}
	for i := 0; i < 5+e.rng.Intn(10); i++ {
		e.cl.fsmOp(1, l, "update")
	}
	t := e.others(l)[e.rng.Intn(2)]
	e.rc.emit(&ev.Rec{K: "fault", Op: "transfer-to-a-node-that-is-down-while-a-promotion-is-pending", Nid: t.nid})
	t.shutdown(30 * time.Second)
	// node 4 is added (to be promoted) but not running yet
	if err := e.cl.changeConfig(l, "add(4,promote=true)", func(c *raft.Config) error {
		return c.AddNonvoter(4, e.cl.addrOf(4), true)
	}); err != nil {
		return fmt.Errorf("add: %v", err)
	}
	e.ids = append(e.ids, 4)
	tmo := time.Duration(8+e.rng.Intn(6)) * e.hb()
	done := make(chan error, 1)
	go func() { done <- e.cl.transfer(l, t.nid, tmo) }()
	e.sleepHB(1, 2)
	if _, err := e.cl.start(4, e.cl.dirOf(4)); err != nil {
		return err
	}
	var terr error
	select {
	case terr = <-done:
	case <-time.After(tmo + 40*e.hb()):
		terr = fmt.Errorf("transfer did not return")
	}
	resumed := false
	if terr != nil {
		// no request from now on: the leader has to resume the promotion itself
		e.rc.emit(&ev.Rec{K: "quiet-begin"})
		resumed = e.waitFor(30, func() bool {
			info, ok := l.info(false)
			return ok && info.Configs.Latest.Nodes[4].Voter
		})
		e.rc.emit(&ev.Rec{K: "quiet-end"})
		info, _ := l.info(false)
		rec := &ev.Rec{K: "pending-action-after-transfer", Nid: l.nid, Cid: e.cl.cid, Kind: "resumed", Err: terr.Error()}
		if !resumed {
			rec.Kind = "stuck"
			if info.State != raft.Leader {
				rec.Kind = "leader-changed" // nothing to conclude
			}
		}
		rec.Cfg = cvConfig(info.Configs.Latest)
		e.rc.emit(rec)
	}
	if _, err := e.cl.start(t.nid, t.dir); err != nil {
		e.rc.emit(&ev.Rec{K: "restart-failed", Cid: e.cl.cid, Nid: t.nid, Err: err.Error()})
	}
	e.startClients(2, map[string]int{"update": 3, "read": 1})
	e.sleepHB(3, 6)
	return e.finish()
}

func init() { scenarios["leader-after-install"] = scenLeaderAfterInstall }

// scenLeaderAfterInstall (C17 / C09): a node that was itself brought up to
// date by snapshot installation (so its log begins exactly at its snapshot)
// becomes leader and has to bring another node up to date that needs the
// snapshot too (a new node, or one that fell behind the compaction).
func scenLeaderAfterInstall(e *engineA) error {
	e.prof = profiles["snapshot"]
	if err := e.boot(3); err != nil {
		return err
	}
	e.cl.startInfoSampler(e.hb() / 2)
	l := e.cl.leader()
	if l == nil {
		return fmt.Errorf("no leader")
	}
	pad := 90 + 10*e.rng.Intn(4)
	for i := 0; i < 5+e.rng.Intn(10); i++ {
		e.cl.fsmOpPad(1, l, "update", pad)
	}
	fs := e.others(l)
	f, o := fs[0], fs[1]
	e.rc.emit(&ev.Rec{K: "fault", Op: "install-then-lead", Nid: f.nid})
	e.isolate(f, true)
	for i := 0; i < 20+e.rng.Intn(30); i++ {
		if r := e.cl.fsmOpPad(1, l, "update", pad); !r.ok {
			break
		}
	}
	e.sleepHB(4, 5)
	e.cl.takeSnapshot(l, 0)
	e.waitFor(30, func() bool {
		info, ok := l.info(false)
		return ok && info.FirstLogIndex > 4
	})
	e.isolate(f, false)
	// f installs the snapshot: its log now begins at its snapshot index
	e.waitFor(60, func() bool {
		a, ok1 := f.info(false)
		b, ok2 := l.info(false)
		return ok1 && ok2 && a.Committed >= b.Committed
	})
	if e.rng.Intn(3) != 0 {
		// and it catches up completely before it takes over
		for i := 0; i < e.rng.Intn(5); i++ {
			e.cl.fsmOpPad(1, l, "update", pad)
		}
	}
	e.cl.transfer(l, f.nid, 20*e.hb())
	e.sleepHB(2, 3)
	nl := e.cl.waitLeader(100 * e.hb())
	if nl == nil {
		return fmt.Errorf("no leader after the transfer")
	}
	// someone who needs everything from the start
	switch e.rng.Intn(2) {
	case 0:
		id := uint64(4)
		if _, err := e.cl.start(id, e.cl.dirOf(id)); err != nil {
			return err
		}
		e.ids = append(e.ids, id)
		e.cl.changeConfig(nl, "add(4,promote=true)", func(c *raft.Config) error {
			return c.AddNonvoter(id, e.cl.addrOf(id), true)
		})
	case 1:
		// the other follower loses its disk... no: it simply falls behind
		// another compaction under the new leader
		e.isolate(o, true)
		for i := 0; i < 20+e.rng.Intn(20); i++ {
			if r := e.cl.fsmOpPad(1, nl, "update", pad); !r.ok {
				break
			}
		}
		e.sleepHB(4, 5)
		e.cl.takeSnapshot(nl, 0)
		e.sleepHB(2, 3)
		e.isolate(o, false)
	}
	for i := 0; i < 3; i++ {
		e.cl.fsmOpPad(1, nl, "update", pad)
	}
	e.startClients(2, map[string]int{"update": 3, "read": 1})
	e.sleepHB(4, 8)
	return e.finish()
}

func init() { scenarios["stale-suffix-install-crash"] = scenStaleSuffixInstallCrash }

// scenStaleSuffixInstallCrash (C10): like stale-suffix-install, but the
// uncommitted tail of the deposed leader spans several segments, the snapshot
// it is sent ends inside that tail (with another term at that index, so the
// whole log has to go), and the node is killed inside the log reset - after
// the first segments were removed, with segments left that begin after the
// snapshot index.
func scenStaleSuffixInstallCrash(e *engineA) error {
	e.prof = profiles["general"]
	if err := e.boot(3); err != nil {
		return err
	}
	e.cl.startInfoSampler(e.hb() / 2)
	l := e.cl.leader()
	if l == nil {
		return fmt.Errorf("no leader")
	}
	for i := 0; i < 4; i++ {
		e.cl.fsmOp(1, l, "update")
	}
	pad := 100 + 10*e.rng.Intn(6)
	stale := 25 + e.rng.Intn(20)
	nl, err := e.staleTail(l, stale, pad)
	if err != nil {
		return err
	}
	// the new leader commits fewer entries than the tail is long
	n := 6 + e.rng.Intn(stale/2)
	// aligned: its snapshot will end exactly where one of the old leader's
	// segment files begins, and the old leader is killed when the files
	// before that one are gone - the log that is left starts right behind
	// the installed snapshot and belongs to the other history
	var boundary uint64
	aligned := e.rng.Intn(2) == 0
	if aligned {
		if li, ok := nl.info(false); ok {
			var bs []uint64
			files, _ := filepath.Glob(filepath.Join(l.dir, "log", "*.log"))
			for _, f := range files {
				var b uint64
				if _, err := fmt.Sscanf(filepath.Base(f), "%d.log", &b); err == nil && b > li.LastLogIndex+3 {
					bs = append(bs, b)
				}
			}
			sort.Slice(bs, func(i, j int) bool { return bs[i] < bs[j] })
			if len(bs) > 1 {
				bs = bs[:len(bs)-1] // not the last file: something has to remain behind it
			}
			if len(bs) > 0 {
				boundary = bs[e.rng.Intn(len(bs))]
				n = int(boundary - li.LastLogIndex)
			}
		}
	}
	for i := 0; i < n; i++ {
		if r := e.cl.fsmOpPad(1, nl, "update", pad); !r.ok {
			break
		}
	}
	e.sleepHB(4, 5)
	e.cl.takeSnapshot(nl, 0)
	for _, f := range e.others(l) {
		if f != nl {
			e.cl.takeSnapshot(f, 0)
		}
	}
	e.waitFor(30, func() bool {
		info, ok := nl.info(false)
		return ok && info.FirstLogIndex > 6
	})
	pts := []string{"log.reset.each", "log.reset.each", "log.reset.each", "install.stored", "clearLog", "log.reset.created"}
	pt := pts[e.rng.Intn(len(pts))]
	occ := 1
	if pt == "log.reset.each" {
		occ = 1 + e.rng.Intn(3)
	}
	if boundary != 0 {
		if si, ok := nl.info(false); ok && si.SnapshotIndex == boundary {
			pt, occ = "log.reset.each", 0
			files, _ := filepath.Glob(filepath.Join(l.dir, "log", "*.log"))
			for _, f := range files {
				var b uint64
				if _, err := fmt.Sscanf(filepath.Base(f), "%d.log", &b); err == nil && b < boundary {
					occ++
				}
			}
			e.rc.emit(&ev.Rec{K: "fault", Op: "snapshot-ends-at-a-segment-boundary-of-the-stale-log", Nid: l.nid, Idx: boundary})
		}
	}
	e.rc.emit(&ev.Rec{K: "fault", Op: "directed-crash at " + pt, Nid: l.nid, Note: fmt.Sprintf("occurrence %d", occ)})
	e.pc.planCrash(l.dir, pt, occ)
	e.isolate(l, false)
	e.waitFor(60, func() bool { return l.isCrashed() })
	e.sleepHB(1, 3)
	if !l.isCrashed() {
		e.pc.cancelCrash(l.dir)
	}
	e.cl.recoverCrashed()
	e.startClients(2, map[string]int{"update": 3, "read": 1})
	e.sleepHB(5, 9)
	return e.finish()
}

func init() { scenarios["slow-fsm-install"] = scenSlowFSMInstall }

// scenSlowFSMInstall (C15 / C09 / C03): a follower's state machine is slow, so
// it holds a backlog of committed entries that are not applied yet (the state
// machine goroutine reads them from the log). While it works through the
// backlog the follower falls behind a compaction and is brought back by
// snapshot installation, which discards or compacts the log under the reader.
func scenSlowFSMInstall(e *engineA) error {
	e.prof = profiles["snapshot"]
	if err := e.boot(3); err != nil {
		return err
	}
	l := e.cl.leader()
	if l == nil {
		return fmt.Errorf("no leader")
	}
	pad := 90 + 10*e.rng.Intn(4)
	for i := 0; i < 5; i++ {
		e.cl.fsmOpPad(1, l, "update", pad)
	}
	f := e.others(l)[e.rng.Intn(2)]
	e.rc.emit(&ev.Rec{K: "fault", Op: "slow-state-machine-then-install", Nid: f.nid})
	// f's state machine stops before the next entry it is given: a backlog of
	// committed entries builds up, which it will read from the log later
	e.pc.hold(f.dir, "fsm.beforeApply")
	for i := 0; i < 10+e.rng.Intn(10); i++ {
		e.cl.fsmOpPad(1, l, "update", pad)
	}
	e.isolate(f, true)
	for i := 0; i < 20+e.rng.Intn(30); i++ {
		if r := e.cl.fsmOpPad(1, l, "update", pad); !r.ok {
			break
		}
	}
	e.sleepHB(4, 5)
	e.cl.takeSnapshot(l, 0)
	e.waitFor(30, func() bool {
		info, ok := l.info(false)
		return ok && info.FirstLogIndex > 4
	})
	// the snapshot arrives while the backlog is untouched; the state machine
	// goes on a moment after the snapshot was stored
	before := e.pc.count(f.dir, "install.stored")
	e.isolate(f, false)
	e.waitFor(60, func() bool { return e.pc.count(f.dir, "install.stored") > before })
	e.sleepHB(1, 2)
	e.pc.release(f.dir, "fsm.beforeApply")
	e.sleepHB(3, 5)
	e.cl.startInfoSampler(e.hb() / 2)
	e.startClients(2, map[string]int{"update": 3, "read": 1})
	e.sleepHB(4, 8)
	return e.finish()
}

func init() { scenarios["deposed-leader-truncates"] = scenDeposedLeaderTruncates }

// scenDeposedLeaderTruncates (C15 / C04): a leader that stays in office while
// it is cut off (quorum wait) holds an uncommitted tail of several segments
// and keeps trying to replicate it. After the heal the new leader's first
// request reaches it while it still is leader: it steps down inside the
// request handler and removes the conflicting tail, or replaces its log by a
// snapshot - while its replications are reading that log.
func scenDeposedLeaderTruncates(e *engineA) error {
	e.prof = profiles["general"]
	if err := e.boot(3); err != nil {
		return err
	}
	e.cl.startInfoSampler(e.hb() / 2)
	l := e.cl.leader()
	if l == nil {
		return fmt.Errorf("no leader")
	}
	for i := 0; i < 4; i++ {
		e.cl.fsmOp(1, l, "update")
	}
	pad := 100 + 10*e.rng.Intn(6)
	stale := 25 + e.rng.Intn(25)
	e.pc.setSlow(l.dir, "repl.beforeRead", e.hb()/8)
	oneWay := e.rng.Intn(2) == 0
	var nl *Node
	if oneWay {
		// the leader cannot send but still receives: the very first request of
		// its successor (the successor's no-op, at an index where the old
		// leader holds an entry of its own) reaches it while it leads
		e.rc.emit(&ev.Rec{K: "fault", Op: "leader-cannot-send-but-receives", Nid: l.nid})
		// (what it initiates is blocked - an outbound rule - while the others
		// reach it on connections of their own, handshake included)
		for _, o := range e.others(l) {
			e.net.MuteOut(l.label, o.label, true)
		}
		for i := 0; i < stale; i++ {
			go e.cl.fsmOpPad(3, l, "update", pad)
		}
		if !e.waitFor(80, func() bool {
			for _, f := range e.others(l) {
				if info, ok := f.info(false); ok && info.State == raft.Leader {
					nl = f
					return true
				}
			}
			return false
		}) {
			return fmt.Errorf("the others elected no leader")
		}
	} else {
		var err error
		if nl, err = e.staleTail(l, stale, pad); err != nil {
			return err
		}
	}
	n := 3 + e.rng.Intn(10)
	for i := 0; i < n; i++ {
		if r := e.cl.fsmOpPad(1, nl, "update", pad); !r.ok {
			break
		}
	}
	if e.rng.Intn(2) == 0 {
		// the others compact: the deposed leader is sent a snapshot
		e.sleepHB(4, 5)
		e.cl.takeSnapshot(nl, 0)
		e.waitFor(30, func() bool {
			info, ok := nl.info(false)
			return ok && info.FirstLogIndex > 4
		})
	}
	info, _ := l.info(true)
	e.rc.emit(&ev.Rec{K: "fault", Op: "heal-deposed-leader", Nid: l.nid, Note: fmt.Sprintf("state %c", info.State)})
	// the way in opens first: what the successor sends arrives before the
	// deposed leader gets any answer to what it had sent itself
	for _, o := range e.others(l) {
		e.net.MuteOut(l.label, o.label, true)
		e.net.Cut(l.label, o.label, false)
		e.net.Cut(o.label, l.label, false)
		e.net.Release(o.label, l.label, false)
	}
	e.sleepHB(1.5, 2.5)
	for _, o := range e.others(l) {
		e.net.Cut(l.label, o.label, false)
		e.net.MuteOut(l.label, o.label, false)
		e.net.Release(l.label, o.label, true)
	}
	e.sleepHB(4, 8)
	e.pc.setSlow(l.dir, "repl.beforeRead", 0)
	e.startClients(2, map[string]int{"update": 3, "read": 1})
	e.sleepHB(4, 8)
	return e.finish()
}

func init() { scenarios["open-vs-retention"] = scenOpenVsRetention }

// scenOpenVsRetention (C15 / C09): the leader is about to send its snapshot
// to a follower that fell behind the compaction (it has read the label and is
// held before it opens the file); meanwhile the leader takes another snapshot,
// and with one snapshot retained the older one's files are removed.
func scenOpenVsRetention(e *engineA) error {
	e.prof = profiles["snapshot"]
	if err := e.boot(3); err != nil {
		return err
	}
	e.cl.startInfoSampler(e.hb() / 2)
	l := e.cl.leader()
	if l == nil {
		return fmt.Errorf("no leader")
	}
	pad := 90 + 10*e.rng.Intn(4)
	for i := 0; i < 5+e.rng.Intn(10); i++ {
		e.cl.fsmOpPad(1, l, "update", pad)
	}
	f := e.others(l)[e.rng.Intn(2)]
	e.rc.emit(&ev.Rec{K: "fault", Op: "snapshot-opened-for-sending-while-the-next-is-taken", Nid: f.nid})
	e.isolate(f, true)
	for i := 0; i < 20+e.rng.Intn(20); i++ {
		if r := e.cl.fsmOpPad(1, l, "update", pad); !r.ok {
			break
		}
	}
	e.sleepHB(4, 5)
	e.cl.takeSnapshot(l, 0)
	e.waitFor(30, func() bool {
		info, ok := l.info(false)
		return ok && info.FirstLogIndex > 4
	})
	for i := 0; i < 3+e.rng.Intn(5); i++ {
		e.cl.fsmOpPad(1, l, "update", pad)
	}
	holdAt := "snap.open.metaRead"
	if e.rng.Intn(2) == 0 {
		// earlier: the replication is counting itself as a user of the
		// current snapshot (it holds the store's user lock) when the next
		// snapshot is published
		holdAt = "snap.open.counting"
	}
	hit := e.pc.hold(l.dir, holdAt)
	e.isolate(f, false)
	select {
	case <-hit:
		// the replication holds the label of the current snapshot; the next one is published
		if holdAt == "snap.open.counting" {
			go e.cl.takeSnapshot(l, 0) // its retention step waits for the user lock
		} else {
			e.cl.takeSnapshot(l, 0)
		}
		e.sleepHB(1, 2)
	case <-time.After(40 * e.hb()):
	}
	e.pc.release(l.dir, holdAt)
	e.sleepHB(3, 5)
	e.startClients(2, map[string]int{"update": 3, "read": 1})
	e.sleepHB(4, 8)
	return e.finish()
}

func init() { scenarios["foreign-dialer"] = scenForeignDialer }

// scenForeignDialer (C20 / C17): a node of another cluster that happens to
// have the node id of this cluster's leader keeps dialling the followers (an
// address mix-up); every attempt ends at the identity handshake, which is
// refused. Then this cluster's leader goes away. The refused handshakes must
// not count as contact from the leader: the followers have to notice that it
// is gone and elect a new one.
func scenForeignDialer(e *engineA) error {
	e.prof = profiles["general"]
	if err := e.boot(3); err != nil {
		return err
	}
	e.cl.startInfoSampler(e.hb() / 2)
	l := e.cl.leader()
	if l == nil {
		return fmt.Errorf("no leader")
	}
	for i := 0; i < 4; i++ {
		e.cl.fsmOp(1, l, "update")
	}
	fs := e.others(l)
	e.rc.emit(&ev.Rec{K: "fault", Op: "foreign-node-with-the-leaders-id-keeps-dialling", Nid: l.nid})
	stop := make(chan struct{})
	var wg sync.WaitGroup
	var mu sync.Mutex
	var open []*wirePeer
	for _, f := range fs {
		wg.Add(1)
		go func(f *Node) {
			defer wg.Done()
			for {
				select {
				case <-stop:
					return
				default:
				}
				// (cluster 7, same node ids): the handshake names the target it believes to be there
				// (a refused connection is simply abandoned, not closed: the
				// follower is not told that "its leader" hung up)
				if p, _, err := wireDial(e.net, "foreign", l.nid, f.addr, 7, f.nid, e.hb()); err == nil {
					mu.Lock()
					open = append(open, p)
					mu.Unlock()
				}
				time.Sleep(e.hb() / 4)
			}
		}(f)
	}
	e.sleepHB(2, 3)
	// the leader falls silent (its connections stay open and carry nothing)
	e.isolate(l, true)
	elected := e.waitFor(40, func() bool {
		for _, f := range fs {
			if info, ok := f.info(false); ok && info.State == raft.Leader {
				return true
			}
		}
		return false
	})
	rec := &ev.Rec{K: "foreign-dialer-outcome", Cid: e.cl.cid, Nid: l.nid, Kind: "leader-elected"}
	if !elected {
		rec.Kind = "no-election"
	}
	e.rc.emit(rec)
	close(stop)
	wg.Wait()
	for _, p := range open {
		p.close()
	}
	e.isolate(l, false)
	e.startClients(2, map[string]int{"update": 3, "read": 1})
	e.sleepHB(3, 6)
	return e.finish()
}

func init() { scenarios["promoted-unaware"] = scenPromotedUnaware }

// scenPromotedUnaware (C17): a non-voter that has been a member for a while
// is promoted; the configuration that makes it a voter is committed by the
// other three, but the link from the leader to the promoted node goes silent
// just before that entry is sent, and then the leader itself falls silent
// (connections stay open and carry nothing: a machine that hangs or loses
// power). Three of the four voters of the committed configuration are
// running and connected; they must elect a leader within a bounded number of
// election timeouts. The promoted node still counts itself a non-voter, so
// it cannot campaign, but it must notice that its leader is gone and vote.
func scenPromotedUnaware(e *engineA) error {
	e.prof = profiles["member"]
	if err := e.boot(3); err != nil {
		return err
	}
	e.cl.startInfoSampler(e.hb() / 2)
	l := e.cl.leader()
	if l == nil {
		return fmt.Errorf("no leader")
	}
	for i := 0; i < 3; i++ {
		e.cl.fsmOp(1, l, "update")
	}
	info, ok := l.info(false)
	if !ok {
		return fmt.Errorf("no status")
	}
	conf := info.Configs.Latest
	id := e.newNodeID(&conf)
	if id == 0 {
		return fmt.Errorf("no new node")
	}
	if err := e.cl.changeConfig(l, fmt.Sprintf("add(%d,promote=false)", id), func(c *raft.Config) error {
		return c.AddNonvoter(id, e.cl.addrOf(id), false)
	}); err != nil {
		return fmt.Errorf("add: %v", err)
	}
	n := e.cl.node(id)
	// the new member idles as a non-voter for a few election timeouts, with
	// an entry now and then
	for i := 0; i < 2+e.rng.Intn(3); i++ {
		e.sleepHB(2, 3)
		e.cl.fsmOp(1, l, "update")
	}
	if cur := e.cl.leader(); cur != l {
		return fmt.Errorf("leader changed during the preparation")
	}
	e.rc.emit(&ev.Rec{K: "fault", Op: "leader-silent-towards-promoted-node-then-silent", Nid: l.nid, ID: id})
	var cutDone int32
	ldir := l.dir
	e.rc.setOnNodeEvent(func(dir string, r *ev.Rec) {
		if dir == ldir && r.K == "append" && r.Cfg != nil && r.Cfg.IsVoter(id) && atomic.CompareAndSwapInt32(&cutDone, 0, 1) {
			e.net.Cut(l.label, n.label, true)
		}
	})
	go e.cl.changeConfig(l, fmt.Sprintf("promote(%d)", id), func(c *raft.Config) error { return c.SetAction(id, raft.Promote) })
	committed := e.waitFor(80, func() bool {
		li, ok := l.info(false)
		return ok && atomic.LoadInt32(&cutDone) == 1 && li.Configs.IsCommitted() && li.Configs.Latest.Nodes[id].Voter
	})
	e.rc.setOnNodeEvent(nil)
	if !committed {
		return fmt.Errorf("promotion was not committed")
	}
	if ni, ok := n.info(false); ok && ni.Configs.Latest.Nodes[id].Voter {
		return fmt.Errorf("the promoted node learnt of its promotion")
	}
	fs := e.others(l)
	e.isolate(l, true)
	elected := e.waitFor(40, func() bool {
		for _, f := range fs {
			if fi, ok := f.info(false); ok && fi.State == raft.Leader {
				return true
			}
		}
		return false
	})
	rec := &ev.Rec{K: "bounded-election", Cid: e.cl.cid, Nid: l.nid, ID: id, Kind: "leader-elected"}
	if !elected {
		rec.Kind = "no-election"
		for _, f := range fs {
			if fi, ok := f.info(false); ok {
				rec.Note += fmt.Sprintf("node %d: %v term %d leader %d; ", f.nid, fi.State, fi.Term, fi.Leader)
			}
		}
	}
	e.rc.emit(rec)
	e.isolate(l, false)
	e.net.Cut(l.label, n.label, false)
	e.startClients(2, map[string]int{"update": 3, "read": 1})
	e.sleepHB(3, 6)
	return e.finish()
}

func init() { scenarios["self-demotion-uncommitted"] = scenSelfDemotionUncommitted }

// scenSelfDemotionUncommitted (C17; known finding): the leader of a
// two-voter cluster is asked to demote (or remove) itself while the link to
// the other voter is down for a moment. It stores the configuration in which
// it no longer votes, cannot replicate it, and gives up its office when it
// finds that it reaches nobody. The link comes back: both nodes are healthy,
// and a leader has to emerge within the bound.
func scenSelfDemotionUncommitted(e *engineA) error {
	e.prof = profiles["member"]
	if err := e.boot(2); err != nil {
		return err
	}
	e.cl.startInfoSampler(e.hb() / 2)
	l := e.cl.leader()
	if l == nil {
		return fmt.Errorf("no leader")
	}
	for i := 0; i < 3; i++ {
		e.cl.fsmOp(1, l, "update")
	}
	f := e.others(l)[0]
	act := []raft.Action{raft.Demote, raft.Remove}[e.rng.Intn(2)]
	e.rc.emit(&ev.Rec{K: "fault", Op: "leader-of-two-stores-its-own-demotion-and-cannot-replicate-it", Nid: l.nid})
	e.cutBoth(l, f, true)
	before, _ := l.info(false)
	go e.cl.changeConfig(l, fmt.Sprintf("self-%v(%d)", act, l.nid), func(c *raft.Config) error { return c.SetAction(l.nid, act) })
	if !e.waitFor(40, func() bool {
		li, ok := l.info(false)
		return ok && li.Configs.Latest.Index > before.Configs.Latest.Index
	}) {
		return fmt.Errorf("the request was not stored")
	}
	// it notices that it reaches nobody and gives up its office
	if !e.waitFor(80, func() bool {
		li, ok := l.info(false)
		return ok && li.State != raft.Leader
	}) {
		return fmt.Errorf("the leader kept its office")
	}
	e.cutBoth(l, f, false)
	e.sleepHB(2, 4)
	return e.finish()
}

func init() { scenarios["grown-cluster"] = scenGrownCluster }

// scenGrownCluster (C02 / C06 / C08): a cluster that was bootstrapped with a
// single voter grows to three (or five) voters under one and the same leader;
// then that leader is cut off while clients keep sending it updates. Whatever
// it reports committed from then on must survive: the others elect a leader,
// go on, and the old leader comes back.
func scenGrownCluster(e *engineA) error {
	e.prof = profiles["member"]
	if err := e.boot(1); err != nil {
		return err
	}
	e.cl.startInfoSampler(e.hb() / 2)
	l := e.cl.leader()
	if l == nil {
		return fmt.Errorf("no leader")
	}
	if e.rng.Intn(2) == 0 {
		// the lone leader has a history: a log of several segments, a
		// snapshot, and the log compacted behind it - all in the term in which
		// the others join
		pad := 90 + 10*e.rng.Intn(4)
		for i := 0; i < 40+e.rng.Intn(40); i++ {
			e.cl.fsmOpPad(1, l, "update", pad)
		}
		e.cl.takeSnapshot(l, 0)
		e.sleepHB(1, 2)
	}
	e.startClients(2, map[string]int{"update": 3, "read": 1})
	grow := 2 + 2*e.rng.Intn(2)
	for i := 0; i < grow; i++ {
		info, ok := l.info(false)
		if !ok {
			return fmt.Errorf("no status")
		}
		conf := info.Configs.Latest
		id := e.newNodeID(&conf)
		if id == 0 {
			return fmt.Errorf("no new node")
		}
		if err := e.cl.changeConfig(l, fmt.Sprintf("add(%d,promote=true)", id), func(c *raft.Config) error {
			return c.AddNonvoter(id, e.cl.addrOf(id), true)
		}); err != nil {
			return fmt.Errorf("add: %v", err)
		}
		if !e.waitFor(120, func() bool {
			li, ok := l.info(false)
			return ok && li.Configs.IsStable() && li.Configs.IsCommitted() && li.Configs.Latest.Nodes[id].Voter
		}) {
			return fmt.Errorf("node %d was not promoted", id)
		}
	}
	if cur := e.cl.leader(); cur != l {
		return fmt.Errorf("leader changed while the cluster grew")
	}
	e.sleepHB(1, 3)
	e.rc.emit(&ev.Rec{K: "fault", Op: "isolate-leader-of-grown-cluster", Nid: l.nid})
	e.isolate(l, true)
	for i := 0; i < 3+e.rng.Intn(4); i++ {
		go e.cl.fsmOp(3, l, "update")
	}
	e.waitFor(80, func() bool {
		for _, f := range e.others(l) {
			if fi, ok := f.info(false); ok && fi.State == raft.Leader {
				return true
			}
		}
		return false
	})
	e.sleepHB(2, 4)
	e.isolate(l, false)
	e.sleepHB(4, 8)
	return e.finish()
}

func init() { scenarios["uncommitted-term-leader"] = scenUncommittedTermLeader }

// scenUncommittedTermLeader (C07): leadership is handed to a node that is cut
// off, together with one follower, the moment it becomes leader (four voters:
// neither half has a quorum). It accepts updates, replicates them to that one
// follower, never commits anything in its term and gives up. Whatever it
// told the clients, the network comes back, one of the two wins (their logs
// are the longest) and the entries commit: an update that was refused for
// good must not be among them.
func scenUncommittedTermLeader(e *engineA) error {
	e.prof = profiles["general"]
	if err := e.boot(4); err != nil {
		return err
	}
	e.cl.startInfoSampler(e.hb() / 2)
	l := e.cl.leader()
	if l == nil {
		return fmt.Errorf("no leader")
	}
	for i := 0; i < 3; i++ {
		e.cl.fsmOp(1, l, "update")
	}
	fs := e.others(l)
	x, a := fs[0], fs[1]
	rest := []*Node{l, fs[2]}
	e.rc.emit(&ev.Rec{K: "fault", Op: "new-leader-cut-off-with-one-follower-before-its-first-commit", Nid: x.nid, ID: a.nid})
	var cut int32
	xdir := x.dir
	e.rc.setOnNodeEvent(func(dir string, r *ev.Rec) {
		if dir == xdir && r.K == "state" && r.St != nil && r.St.State == "L" && atomic.CompareAndSwapInt32(&cut, 0, 1) {
			for _, m := range rest {
				e.net.Cut(x.label, m.label, true)
				e.net.Cut(m.label, x.label, true)
				e.net.Cut(a.label, m.label, true)
				e.net.Cut(m.label, a.label, true)
			}
		}
	})
	go e.cl.transfer(l, x.nid, 20*e.hb())
	if !e.waitFor(60, func() bool { return atomic.LoadInt32(&cut) == 1 }) {
		e.rc.setOnNodeEvent(nil)
		return fmt.Errorf("the target did not become leader")
	}
	e.rc.setOnNodeEvent(nil)
	var wg sync.WaitGroup
	for i := 0; i < 2+e.rng.Intn(3); i++ {
		wg.Add(1)
		go func() {
			defer wg.Done()
			e.cl.fsmOp(3, x, "update")
		}()
	}
	// it gives up once it has waited long enough for a quorum
	e.waitFor(200, func() bool {
		xi, ok := x.info(false)
		return ok && xi.State != raft.Leader
	})
	wg.Wait()
	e.net.HealAll(false)
	e.sleepHB(6, 10)
	e.startClients(2, map[string]int{"update": 3, "read": 1})
	e.sleepHB(3, 6)
	return e.finish()
}

func init() { scenarios["install-then-own-snapshot"] = scenInstallThenOwnSnapshot }

// scenInstallThenOwnSnapshot (C12): while a follower is away the membership
// changes (a node is added, another one's data changes) and the leader
// compacts its log beyond those entries; the follower is brought forward by
// an installed snapshot, receives only ordinary updates afterwards, takes a
// snapshot of its own, compacts, and is restarted: what it then believes the
// membership to be comes from the label of its own snapshot.
func scenInstallThenOwnSnapshot(e *engineA) error {
	e.prof = profiles["snapshot"]
	if err := e.boot(3); err != nil {
		return err
	}
	e.cl.startInfoSampler(e.hb() / 2)
	l := e.cl.leader()
	if l == nil {
		return fmt.Errorf("no leader")
	}
	pad := 90 + 10*e.rng.Intn(4)
	for i := 0; i < 5+e.rng.Intn(10); i++ {
		e.cl.fsmOpPad(1, l, "update", pad)
	}
	f := e.others(l)[e.rng.Intn(2)]
	e.rc.emit(&ev.Rec{K: "fault", Op: "membership-changes-while-away-then-install-then-own-snapshot", Nid: f.nid})
	e.isolate(f, true)
	info, ok := l.info(false)
	if !ok {
		return fmt.Errorf("no status")
	}
	conf := info.Configs.Latest
	id := e.newNodeID(&conf)
	if id == 0 {
		return fmt.Errorf("no new node")
	}
	if err := e.cl.changeConfig(l, fmt.Sprintf("add(%d,promote=false)", id), func(c *raft.Config) error {
		return c.AddNonvoter(id, e.cl.addrOf(id), false)
	}); err != nil {
		return fmt.Errorf("add: %v", err)
	}
	if e.rng.Intn(2) == 0 {
		o := e.others(l)[0]
		e.cl.changeConfig(l, fmt.Sprintf("setdata(%d)", o.nid), func(c *raft.Config) error { return c.SetData(o.nid, "moved") })
	}
	for i := 0; i < 20+e.rng.Intn(30); i++ {
		if r := e.cl.fsmOpPad(1, l, "update", pad); !r.ok {
			break
		}
	}
	e.sleepHB(4, 5)
	e.cl.takeSnapshot(l, 0)
	li, _ := l.info(false)
	e.waitFor(30, func() bool {
		x, ok := l.info(false)
		return ok && x.FirstLogIndex > li.Configs.Latest.Index
	})
	e.isolate(f, false)
	e.waitFor(80, func() bool {
		a, ok1 := f.info(false)
		b, ok2 := l.info(false)
		return ok1 && ok2 && a.Committed >= b.Committed
	})
	// only ordinary updates from here on
	cur := e.cl.leader()
	if cur == nil {
		cur = l
	}
	for i := 0; i < 20+e.rng.Intn(20); i++ {
		if r := e.cl.fsmOpPad(1, cur, "update", pad); !r.ok {
			break
		}
	}
	e.sleepHB(2, 3)
	e.cl.takeSnapshot(f, 0)
	e.sleepHB(2, 4)
	if f.shutdown(30 * time.Second) {
		if _, err := e.cl.start(f.nid, f.dir); err != nil {
			e.rc.emit(&ev.Rec{K: "restart-failed", Cid: e.cl.cid, Nid: f.nid, Err: err.Error()})
		}
	}
	e.startClients(2, map[string]int{"update": 3, "read": 1})
	e.sleepHB(4, 8)
	return e.finish()
}

func init() { scenarios["transfer-target-campaigns-later"] = scenTransferTargetCampaignsLater }

// scenTransferTargetCampaignsLater (C17 / C16): the target of a leadership
// transfer is told to time out now, but nothing it sends gets through: it
// campaigns alone, the transfer times out, the leader stays and goes on. The
// network comes back, the target's candidacy ends without success (its log
// is behind) and it follows the leader that emerges. Later it is cut off
// once more and campaigns for the ordinary reason - that candidacy has no
// permission to disturb a live leader.
func scenTransferTargetCampaignsLater(e *engineA) error {
	e.prof = profiles["transfer"]
	if err := e.boot(3 + 2*e.rng.Intn(2)); err != nil {
		return err
	}
	e.cl.startInfoSampler(e.hb() / 2)
	l := e.cl.leader()
	if l == nil {
		return fmt.Errorf("no leader")
	}
	for i := 0; i < 3; i++ {
		e.cl.fsmOp(1, l, "update")
	}
	e.sleepHB(1, 2)
	x := e.others(l)[0]
	e.rc.emit(&ev.Rec{K: "fault", Op: "transfer-target-mute-then-campaigns-again-later", Nid: x.nid})
	// the moment x has handled the timeout-now request it falls silent: its
	// answer to the leader and the vote requests it is about to send are held
	var muted int32
	xdir := x.dir
	e.rc.setOnNodeEvent(func(dir string, r *ev.Rec) {
		if dir == xdir && r.K == "rpc" && r.RPC == "timeoutNow" && atomic.CompareAndSwapInt32(&muted, 0, 1) {
			for _, o := range e.cl.liveNodes() {
				if o != x {
					e.net.Cut(x.label, o.label, true)
				}
			}
		}
	})
	e.cl.transfer(l, x.nid, 6*e.hb())
	e.rc.setOnNodeEvent(nil)
	e.isolate(x, true)
	if cur := e.cl.leader(); cur != nil {
		for i := 0; i < 3; i++ {
			e.cl.fsmOp(1, cur, "update")
		}
	}
	e.sleepHB(2, 4)
	e.isolate(x, false)
	// its candidacy ends; it follows whoever leads now
	if !e.waitFor(120, func() bool {
		xi, ok := x.info(false)
		if !ok || xi.State != raft.Follower || xi.Leader == 0 {
			return false
		}
		cur := e.cl.leader()
		return cur != nil && cur.nid == xi.Leader
	}) {
		return fmt.Errorf("the target did not settle as a follower")
	}
	e.sleepHB(2, 3)
	if cur := e.cl.leader(); cur != nil {
		e.cl.fsmOp(1, cur, "update")
	}
	// cut off again: an ordinary candidacy
	e.isolate(x, true)
	e.waitFor(40, func() bool {
		xi, ok := x.info(false)
		return ok && xi.State == raft.Candidate
	})
	e.sleepHB(2, 3)
	e.isolate(x, false)
	e.sleepHB(4, 6)
	e.startClients(2, map[string]int{"update": 3, "read": 1})
	e.sleepHB(3, 6)
	return e.finish()
}

func init() { scenarios["idle-nonvoter-restarted"] = scenIdleNonvoterRestarted }

// scenIdleNonvoterRestarted (C17; known finding): a non-voter that is fully
// caught up is restarted while the cluster has nothing to do. A restarted
// node knows its log but not how much of it is committed; it applies nothing
// until a leader tells it. Nobody submits anything: within the bound the
// leader has to get in touch by itself and the node's state machine has to be
// what it was.
func scenIdleNonvoterRestarted(e *engineA) error {
	e.prof = profiles["member"]
	if err := e.boot(3); err != nil {
		return err
	}
	e.cl.startInfoSampler(e.hb() / 2)
	l := e.cl.leader()
	if l == nil {
		return fmt.Errorf("no leader")
	}
	info, ok := l.info(false)
	if !ok {
		return fmt.Errorf("no status")
	}
	conf := info.Configs.Latest
	id := e.newNodeID(&conf)
	if id == 0 {
		return fmt.Errorf("no new node")
	}
	if err := e.cl.changeConfig(l, fmt.Sprintf("add(%d,promote=false)", id), func(c *raft.Config) error {
		return c.AddNonvoter(id, e.cl.addrOf(id), false)
	}); err != nil {
		return fmt.Errorf("add: %v", err)
	}
	var want int64
	for i := 0; i < 5+e.rng.Intn(10); i++ {
		if r := e.cl.fsmOp(1, l, "update"); r.ok {
			want = r.pos
		}
	}
	n := e.cl.node(id)
	if !e.waitFor(60, func() bool {
		r := e.cl.fsmOp(1, n, "dirty")
		return r.ok && r.readLen >= want
	}) {
		return fmt.Errorf("the non-voter did not catch up in the first place")
	}
	e.sleepHB(3, 5)
	e.rc.emit(&ev.Rec{K: "fault", Op: "idle-nonvoter-restarted", Nid: id})
	if !n.shutdown(30 * time.Second) {
		return fmt.Errorf("shutdown")
	}
	var err error
	if n, err = e.cl.start(id, n.dir); err != nil {
		return err
	}
	e.rc.emit(&ev.Rec{K: "quiet-begin"})
	caughtUp := e.waitFor(60, func() bool {
		r := e.cl.fsmOp(1, n, "dirty")
		return r.ok && r.readLen >= want
	})
	e.rc.emit(&ev.Rec{K: "quiet-end"})
	rec := &ev.Rec{K: "bounded-catch-up", Cid: e.cl.cid, Nid: id, Kind: "caught-up", Cnt: want}
	if !caughtUp {
		rec.Kind = "never"
		if ni, ok := n.info(false); ok {
			rec.Note = fmt.Sprintf("node %d: leader %d, commit index %d, last log index %d", id, ni.Leader, ni.Committed, ni.LastLogIndex)
		}
		if li, ok := l.info(false); ok {
			f := li.Followers[id]
			rec.Note += fmt.Sprintf("; the leader reports match index %d, unreachable %v", f.MatchIndex, f.Unreachable != nil)
		}
	}
	e.rc.emit(rec)
	return e.finish()
}

func init() { scenarios["restart-after-install"] = scenRestartAfterInstall }

// scenRestartAfterInstall (C03 / C02 / C10): a follower is brought forward by
// an installed snapshot that replaces its log (the log then begins exactly
// where the snapshot ends). With the third node down, further updates are
// committed by the leader and this follower alone. The follower is
// restarted, the leader goes down, the third node comes back: the two that
// are up must elect the one that holds those updates, and no state machine
// may ever hold anything else at their positions.
func scenRestartAfterInstall(e *engineA) error {
	e.prof = profiles["snapshot"]
	if err := e.boot(3); err != nil {
		return err
	}
	e.cl.startInfoSampler(e.hb() / 2)
	l := e.cl.leader()
	if l == nil {
		return fmt.Errorf("no leader")
	}
	pad := 90 + 10*e.rng.Intn(4)
	for i := 0; i < 5+e.rng.Intn(10); i++ {
		e.cl.fsmOpPad(1, l, "update", pad)
	}
	fs := e.others(l)
	f, d := fs[0], fs[1]
	e.rc.emit(&ev.Rec{K: "fault", Op: "install-then-commit-with-two-then-restart", Nid: f.nid})
	e.isolate(f, true)
	for i := 0; i < 20+e.rng.Intn(30); i++ {
		if r := e.cl.fsmOpPad(1, l, "update", pad); !r.ok {
			break
		}
	}
	e.sleepHB(4, 5)
	e.cl.takeSnapshot(l, 0)
	e.waitFor(30, func() bool {
		info, ok := l.info(false)
		return ok && info.FirstLogIndex > 4
	})
	e.isolate(f, false)
	if !e.waitFor(80, func() bool {
		a, ok1 := f.info(false)
		b, ok2 := l.info(false)
		return ok1 && ok2 && a.Committed >= b.Committed
	}) {
		return fmt.Errorf("the follower was not brought forward")
	}
	// the third node goes down; the leader and the follower commit alone
	if !d.shutdown(30 * time.Second) {
		return fmt.Errorf("shutdown")
	}
	e.parked[d.nid] = true
	var last int64
	for i := 0; i < 5+e.rng.Intn(10); i++ {
		if r := e.cl.fsmOpPad(1, l, "update", pad); r.ok {
			last = r.pos
		}
	}
	e.waitFor(40, func() bool {
		r := e.cl.fsmOp(1, f, "dirty")
		return r.ok && r.readLen >= last
	})
	// the follower is restarted; then the leader goes down and the third
	// node comes back
	if _, err := e.cl.restart(f.nid); err != nil {
		e.rc.emit(&ev.Rec{K: "restart-failed", Cid: e.cl.cid, Nid: f.nid, Err: err.Error()})
		return e.finish()
	}
	if !l.shutdown(30 * time.Second) {
		return fmt.Errorf("shutdown")
	}
	e.parked[l.nid] = true
	delete(e.parked, d.nid)
	if _, err := e.cl.start(d.nid, d.dir); err != nil {
		return err
	}
	if nl := e.cl.waitLeader(200 * e.hb()); nl != nil {
		for i := 0; i < 5; i++ {
			e.cl.fsmOpPad(1, nl, "update", pad)
		}
	}
	delete(e.parked, l.nid)
	if _, err := e.cl.start(l.nid, l.dir); err != nil {
		e.rc.emit(&ev.Rec{K: "restart-failed", Cid: e.cl.cid, Nid: l.nid, Err: err.Error()})
	}
	e.startClients(2, map[string]int{"update": 3, "read": 1})
	e.sleepHB(4, 8)
	return e.finish()
}

func init() { scenarios["late-vote-results"] = scenLateVoteResults }

// scenLateVoteResults (C01): a candidate's vote requests are answered in time,
// but the goroutines that carry the answers to it are slow (held between the
// answer and its delivery). The candidate, cut off by now, starts its next
// election; then the answers of the previous one are delivered. They are
// grants for a term that is over: nobody voted for the candidate in the term
// it is campaigning for.
func scenLateVoteResults(e *engineA) error {
	e.prof = profiles["election"]
	if err := e.boot(5); err != nil {
		return err
	}
	e.cl.startInfoSampler(e.hb() / 2)
	l := e.cl.leader()
	if l == nil {
		return fmt.Errorf("no leader")
	}
	for i := 0; i < 3; i++ {
		e.cl.fsmOp(1, l, "update")
	}
	e.sleepHB(1, 2)
	a := e.others(l)[e.rng.Intn(4)]
	e.rc.emit(&ev.Rec{K: "fault", Op: "vote-results-delivered-one-election-late", Nid: a.nid})
	hit := e.pc.hold(a.dir, "vote.result")
	// count a's elections from here on
	var elections int32
	adir := a.dir
	e.rc.setOnNodeEvent(func(dir string, r *ev.Rec) {
		if dir == adir && r.K == "election" {
			atomic.AddInt32(&elections, 1)
		}
	})
	go e.cl.transfer(l, a.nid, 6*e.hb())
	select {
	case <-hit: // the first answer is in, and held
	case <-time.After(40 * e.hb()):
		e.rc.setOnNodeEvent(nil)
		e.pc.release(a.dir, "vote.result")
		return fmt.Errorf("no vote result reached the candidate")
	}
	e.sleepHB(0.2, 0.4) // the other answers arrive, and are held as well
	if e.rng.Intn(2) == 0 {
		// variant: nobody is cut off. The candidate hears of a higher term
		// (one of the others campaigns in turn) and steps down; then the
		// answers of its election are delivered
		stepped := e.waitFor(60, func() bool {
			ai, ok := a.info(false)
			return ok && ai.State == raft.Follower
		})
		e.rc.setOnNodeEvent(nil)
		e.pc.release(a.dir, "vote.result")
		if !stepped {
			return fmt.Errorf("the candidate did not step down")
		}
		e.sleepHB(3, 5)
		e.startClients(2, map[string]int{"update": 3, "read": 1})
		e.sleepHB(3, 6)
		return e.finish()
	}
	e.isolate(a, true)
	first := atomic.LoadInt32(&elections)
	next := e.waitFor(40, func() bool { return atomic.LoadInt32(&elections) > first })
	e.rc.setOnNodeEvent(nil)
	e.pc.release(a.dir, "vote.result")
	if !next {
		e.isolate(a, false)
		return fmt.Errorf("the candidate did not start another election")
	}
	e.sleepHB(1, 2)
	e.isolate(a, false)
	e.sleepHB(4, 6)
	e.startClients(2, map[string]int{"update": 3, "read": 1})
	e.sleepHB(3, 6)
	return e.finish()
}

func init() { scenarios["late-install-response"] = scenLateInstallResponse }

// scenLateInstallResponse (C15 / C17): a new node is brought up by snapshot
// installation; its answer to the installation is held up for longer than the
// leader waits for it (nothing is lost or reordered) and delivered afterwards
// on the same connection.
func scenLateInstallResponse(e *engineA) error {
	e.prof = profiles["snapshot"]
	if err := e.boot(3); err != nil {
		return err
	}
	e.cl.startInfoSampler(e.hb() / 2)
	l := e.cl.leader()
	if l == nil {
		return fmt.Errorf("no leader")
	}
	pad := 90 + 10*e.rng.Intn(4)
	for i := 0; i < 20+e.rng.Intn(20); i++ {
		e.cl.fsmOpPad(1, l, "update", pad)
	}
	e.sleepHB(1, 2)
	e.cl.takeSnapshot(l, 0)
	e.waitFor(30, func() bool {
		info, ok := l.info(false)
		return ok && info.FirstLogIndex > 4
	})
	n4, err := e.cl.start(4, e.cl.dirOf(4))
	if err != nil {
		return err
	}
	e.ids = append(e.ids, 4)
	e.rc.emit(&ev.Rec{K: "fault", Op: "answer-to-the-installation-arrives-late", Nid: 4})
	var armed int32 = 1
	dir4, l4, ll := n4.dir, n4.label, l.label
	e.rc.setOnNodeEvent(func(dir string, r *ev.Rec) {
		if dir == dir4 && r.K == "rpc" && r.RPC == "installSnap" && atomic.CompareAndSwapInt32(&armed, 1, 0) {
			e.net.Stall(l4, ll, true)
		}
	})
	go e.cl.changeConfig(l, "add(4,promote=true)", func(c *raft.Config) error {
		return c.AddNonvoter(4, e.cl.addrOf(4), true)
	})
	e.waitFor(30, func() bool { return atomic.LoadInt32(&armed) == 0 })
	e.sleepHB(4.5, 6)
	e.rc.setOnNodeEvent(nil)
	e.net.Stall(l4, ll, false)
	e.net.Release(l4, ll, false)
	e.sleepHB(4, 6)
	e.startClients(2, map[string]int{"update": 3, "read": 1})
	e.sleepHB(4, 8)
	return e.finish()
}

func init() { scenarios["compact-after-remove"] = scenCompactAfterRemove }

// scenCompactAfterRemove (C15 / C09): a follower hangs (its connections stay
// open, nothing comes back); the operator force-removes it; the leader goes
// on, takes a snapshot and compacts its log right away. The replication of
// the removed node has been told to stop but is still waiting for an answer.
func scenCompactAfterRemove(e *engineA) error {
	e.prof = profiles["snapshot"]
	if err := e.boot(3 + e.rng.Intn(2)); err != nil {
		return err
	}
	l := e.cl.leader()
	if l == nil {
		return fmt.Errorf("no leader")
	}
	pad := 90 + 10*e.rng.Intn(4)
	for i := 0; i < 10+e.rng.Intn(10); i++ {
		e.cl.fsmOpPad(1, l, "update", pad)
	}
	x := e.others(l)[0]
	e.rc.emit(&ev.Rec{K: "fault", Op: "hanging-follower-force-removed-then-compaction", Nid: x.nid})
	// x is slow: every answer takes most of a heartbeat timeout
	e.net.Delay(x.label, l.label, e.hb()*4/5)
	for i := 0; i < 3; i++ {
		e.cl.fsmOpPad(1, l, "update", pad)
	}
	if err := e.cl.changeConfig(l, fmt.Sprintf("forceremove(%d)", x.nid), func(c *raft.Config) error {
		return c.SetAction(x.nid, raft.ForceRemove)
	}); err != nil {
		return fmt.Errorf("force remove: %v", err)
	}
	for i := 0; i < 30+e.rng.Intn(20); i++ {
		e.cl.fsmOpPad(1, l, "update", pad)
	}
	e.cl.takeSnapshot(l, 0)
	e.sleepHB(3, 5)
	e.net.Delay(x.label, l.label, 0)
	x.shutdown(30 * time.Second)
	e.parked[x.nid] = true
	e.cl.startInfoSampler(e.hb() / 2)
	e.startClients(2, map[string]int{"update": 3, "read": 1})
	e.sleepHB(3, 6)
	return e.finish()
}

func init() { scenarios["lifecycle"] = scenLifecycle }

// scenLifecycle (C15): the calls around Serve. A node that was created but
// never served is shut down (shutdown must finish); ListenAndServe is given an
// address that is taken (it must return an error, as documented, not take the
// process down); a served node is shut down twice, and tasks submitted after
// that are refused.
func scenLifecycle(e *engineA) error {
	e.prof = profiles["general"]
	if err := e.boot(3); err != nil {
		return err
	}
	l := e.cl.leader()
	if l == nil {
		return fmt.Errorf("no leader")
	}
	for i := 0; i < 3; i++ {
		e.cl.fsmOp(1, l, "update")
	}
	report := func(what, kind, detail string) {
		e.rc.emit(&ev.Rec{K: "lifecycle", Op: what, Kind: kind, Note: detail, Cid: e.cl.cid})
	}
	// 1. New, then Shutdown, never served
	dir := filepath.Join(e.cfg.Scratch, "unserved")
	_ = os.MkdirAll(dir, 0700)
	if err := raft.SetIdentity(dir, 9, 9); err != nil {
		return err
	}
	if r, err := raft.New(e.cl.opt, newRecFSM(e.rc, dir), dir); err != nil {
		report("new-unserved", "error", err.Error())
	} else {
		ctx, cancel := context.WithTimeout(context.Background(), 20*e.hb())
		err := r.Shutdown(ctx)
		cancel()
		if err != nil {
			report("shutdown-unserved", "hangs", err.Error())
		} else {
			report("shutdown-unserved", "ok", "")
		}
	}
	// 2. ListenAndServe on an address that is taken
	if lis, err := net.Listen("tcp", "127.0.0.1:0"); err == nil {
		dir2 := filepath.Join(e.cfg.Scratch, "taken")
		_ = os.MkdirAll(dir2, 0700)
		_ = raft.SetIdentity(dir2, 9, 8)
		if r, err := raft.New(e.cl.opt, newRecFSM(e.rc, dir2), dir2); err == nil {
			func() {
				defer func() {
					if v := recover(); v != nil {
						report("listen-and-serve-address-taken", "panics", fmt.Sprint(v))
					}
				}()
				err := r.ListenAndServe(lis.Addr().String())
				if err != nil {
					report("listen-and-serve-address-taken", "ok", err.Error())
				} else {
					report("listen-and-serve-address-taken", "no-error", "")
				}
			}()
			ctx, cancel := context.WithTimeout(context.Background(), 5*e.hb())
			_ = r.Shutdown(ctx)
			cancel()
		}
		lis.Close()
	}
	// 3. a served node shut down twice; tasks afterwards
	f := e.others(l)[0]
	f.shutdown(30 * time.Second)
	ctx, cancel := context.WithTimeout(context.Background(), 20*e.hb())
	if err := f.r.Shutdown(ctx); err != nil {
		report("second-shutdown", "hangs", err.Error())
	} else {
		report("second-shutdown", "ok", "")
	}
	cancel()
	if _, err := e.cl.start(f.nid, f.dir); err != nil {
		e.rc.emit(&ev.Rec{K: "restart-failed", Cid: e.cl.cid, Nid: f.nid, Err: err.Error()})
	}
	// 4. a membership request naming an action that does not exist, for a
	// follower and for the leader itself: an error is the only acceptable answer
	for pass := 0; pass < 2; pass++ {
		l = e.cl.leader()
		if l == nil {
			break
		}
		target := l.nid
		if pass == 0 {
			target = e.others(l)[0].nid
		}
		act := raft.Action(5 + e.rng.Intn(250))
		err := e.cl.changeConfig(l, fmt.Sprintf("ILLEGAL-action(%d,%d)", target, act), func(c *raft.Config) error {
			n := c.Nodes[target]
			n.Action = act
			c.Nodes[target] = n
			return nil
		})
		if err == nil {
			report("unknown-action", "accepted", fmt.Sprintf("node %d action %d", target, act))
		} else {
			report("unknown-action", "ok", err.Error())
		}
	}
	e.startClients(2, map[string]int{"update": 3, "read": 1})
	e.sleepHB(3, 6)
	return e.finish()
}

func init() { scenarios["uncommitted-demotion-timeout-now"] = scenUncommittedDemotionTimeoutNow }

// scenUncommittedDemotionTimeoutNow (C11): a follower stores the
// configuration that demotes it while that configuration cannot commit (the
// third voter is cut off), so it is a non-voter in its own latest
// configuration and still a voter in the committed one. In that window it is
// told to time out now - a request that was on its way since before the
// demotion, or one from a node that wrongly believes it leads. It must answer
// nonVoter and stay a follower.
func scenUncommittedDemotionTimeoutNow(e *engineA) error {
	e.prof = profiles["member"]
	if err := e.boot(3); err != nil {
		return err
	}
	e.cl.startInfoSampler(e.hb() / 2)
	l := e.cl.leader()
	if l == nil {
		return fmt.Errorf("no leader")
	}
	for i := 0; i < 3; i++ {
		e.cl.fsmOp(1, l, "update")
	}
	fs := e.others(l)
	if len(fs) != 2 {
		return fmt.Errorf("no two followers")
	}
	k := e.rng.Intn(2)
	a, b := fs[k], fs[1-k]
	e.rc.emit(&ev.Rec{K: "fault", Op: "third-voter-cut-off-then-demotion-of-follower-stored", Nid: a.nid, ID: b.nid})
	e.cutBoth(l, b, true)
	e.cutBoth(a, b, true)
	act := []raft.Action{raft.Demote, raft.Remove}[e.rng.Intn(2)]
	go e.cl.changeConfig(l, fmt.Sprintf("%v(%d) while %d is cut off", act, a.nid, b.nid), func(c *raft.Config) error { return c.SetAction(a.nid, act) })
	if !e.waitFor(60, func() bool {
		ai, ok := a.info(false)
		if !ok || ai.Configs.Latest.Index <= ai.Configs.Committed.Index {
			return false
		}
		n, in := ai.Configs.Latest.Nodes[a.nid]
		return !in || !n.Voter
	}) {
		// (with Remove the leader first demotes: either way a is no voter)
		e.cutBoth(l, b, false)
		e.cutBoth(a, b, false)
		return fmt.Errorf("the demotion did not reach the follower uncommitted")
	}
	e.rc.emit(&ev.Rec{K: "fault", Op: "timeout-now-to-follower-demoted-uncommitted", Nid: a.nid})
	for i := 0; i < 3; i++ {
		e.wireTimeoutNow(a)
		e.sleepHB(0.2, 0.5)
	}
	e.sleepHB(1, 2)
	e.cutBoth(l, b, false)
	e.cutBoth(a, b, false)
	e.sleepHB(3, 6)
	return e.finish()
}

func init() { scenarios["two-actions-one-request"] = scenTwoActionsOneRequest }

// scenTwoActionsOneRequest (C08): two voters of a five-node cluster are dead,
// and one membership request asks for both to go: a forced removal of the one
// and a forced removal (or a demotion) of the other. The leader may carry out
// one of the two at once; the configuration that does so has to be committed
// before the other action produces the next one, and each configuration
// follows from its predecessor by one voter.
func scenTwoActionsOneRequest(e *engineA) error {
	e.prof = profiles["member"]
	if err := e.boot(5); err != nil {
		return err
	}
	e.cl.startInfoSampler(e.hb() / 2)
	l := e.cl.leader()
	if l == nil {
		return fmt.Errorf("no leader")
	}
	for i := 0; i < 3; i++ {
		e.cl.fsmOp(1, l, "update")
	}
	fs := e.others(l)
	e.rng.Shuffle(len(fs), func(i, j int) { fs[i], fs[j] = fs[j], fs[i] })
	x, y := fs[0], fs[1]
	e.rc.emit(&ev.Rec{K: "fault", Op: "two-voters-die-and-one-request-removes-both", Nid: x.nid, ID: y.nid})
	for _, n := range []*Node{x, y} {
		n.shutdown(30 * time.Second)
		e.parked[n.nid] = true
	}
	if e.cl.leader() != l {
		return fmt.Errorf("leader changed")
	}
	second := []raft.Action{raft.ForceRemove, raft.ForceRemove, raft.Demote}[e.rng.Intn(3)]
	if e.rng.Intn(2) == 0 {
		e.startClients(2, map[string]int{"update": 3, "read": 1})
	}
	err := e.cl.changeConfig(l, fmt.Sprintf("forceremove(%d) %v(%d)", x.nid, second, y.nid), func(c *raft.Config) error {
		if err := c.SetAction(x.nid, raft.ForceRemove); err != nil {
			return err
		}
		return c.SetAction(y.nid, second)
	})
	if err != nil {
		return fmt.Errorf("request: %v", err)
	}
	e.waitFor(120, func() bool {
		li, ok := l.info(false)
		return ok && li.Configs.IsStable() && li.Configs.IsCommitted()
	})
	for i := 0; i < 3; i++ {
		e.cl.fsmOp(1, l, "update")
	}
	e.sleepHB(2, 4)
	return e.finish()
}
