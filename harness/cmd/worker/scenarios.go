package main

import (
	"fmt"
	"sync/atomic"
	"time"

	"github.com/santhosh-tekuri/raft"

	"verif/ev"
)

func init() {
	scenarios["unflushed-ack"] = scenUnflushedAck
}

// waitFor polls cond every hb/4 for at most n heartbeat timeouts.
func (e *engineA) waitFor(n int, cond func() bool) bool {
	deadline := time.Now().Add(time.Duration(n) * e.hb())
	for time.Now().Before(deadline) {
		if cond() {
			return true
		}
		time.Sleep(e.hb() / 4)
	}
	return cond()
}

func (e *engineA) others(n *Node) []*Node {
	var out []*Node
	for _, m := range e.cl.liveNodes() {
		if m != n {
			out = append(out, m)
		}
	}
	return out
}

// scenUnflushedAck: a leader appends entries it cannot commit (replies from
// its followers are cut), steps down, and a follower that holds the same
// entries becomes leader. After the heal the ex-leader acknowledges the new
// leader's first heartbeat; the new leader starts sending entries only after it
// has received that acknowledgement, and the node is crashed when the first of
// them is being appended (before it is flushed). C10: whatever it acknowledged as stored must
// still be there after the restart.
func scenUnflushedAck(e *engineA) error {
	e.prof = profiles["general"]
	if err := e.boot(3); err != nil {
		return err
	}
	e.cl.startInfoSampler(e.hb() / 2)
	l := e.cl.leader()
	if l == nil {
		return fmt.Errorf("no leader")
	}
	// some committed history first
	for i := 0; i < 5; i++ {
		e.cl.fsmOp(1, l, "update")
	}
	fs := e.others(l)
	e.rc.emit(&ev.Rec{K: "fault", Op: "cut-replies-to-leader", Nid: l.nid})
	for _, f := range fs {
		e.net.Cut(f.label, l.label, true)
	}
	// updates that reach the followers but can never be acknowledged to l
	for i := 0; i < 3+e.rng.Intn(4); i++ {
		go e.cl.fsmOp(2, l, "update")
	}
	// l steps down; the others elect a leader
	var nl *Node
	ok := e.waitFor(60, func() bool {
		for _, f := range fs {
			if info, ok := f.info(false); ok && info.State == raft.Leader {
				nl = f
				return true
			}
		}
		return false
	})
	if !ok {
		return fmt.Errorf("followers elected no leader")
	}
	e.waitFor(20, func() bool {
		info, ok := l.info(false)
		return ok && info.State != raft.Leader
	})
	// crash l at the first append that follows its first successful append reply
	var armed int32 = 1
	ldir := l.dir
	e.rc.onNodeEvent = func(dir string, r *ev.Rec) {
		if dir == ldir && r.K == "rpc" && r.RPC == "append" && r.Res == "success" && atomic.CompareAndSwapInt32(&armed, 1, 0) {
			e.pc.planCrash(dir, "append", 1)
		}
	}
	e.rc.emit(&ev.Rec{K: "fault", Op: "heal-and-crash-after-first-ack", Nid: l.nid, ID: nl.nid})
	for _, f := range fs {
		e.net.Cut(f.label, l.label, false)
		e.net.Release(f.label, l.label, true)
	}
	e.waitFor(40, func() bool { return l.crashed })
	e.rc.onNodeEvent = nil
	e.sleepHB(1, 3)
	e.cl.recoverCrashed()
	e.startClients(2, map[string]int{"update": 1})
	e.sleepHB(4, 8)
	return e.finish()
}
