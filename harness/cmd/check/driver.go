package main

import (
	"crypto/sha1"
	"encoding/json"
	"fmt"
	"math/rand"
	"os"
	"os/exec"
	"path/filepath"
	"regexp"
	"sort"
	"strconv"
	"strings"
	"sync"
	"syscall"
	"time"

	"verif/ev"
	"verif/oracle"
)

type planEntry struct {
	Engine   string
	Scenario string
	Params   string
	Quick    int
	Thorough int
	Race     bool
	Watchdog time.Duration
	// Strace: the worker runs under strace (renames, flushes and the writes
	// of the event log), and stracemon.go judges the order of what it saw
	Strace bool
}

type driver struct {
	prop         string
	tier         string
	seed         int64
	keep         bool
	only         string
	runsOverride int
	par          int

	workerPlain string
	workerRace  string
	scratch     string
	outBase     string
}

type runSpec struct {
	pe   planEntry
	seed int64
	name string
}

type runResult struct {
	spec      runSpec
	dir       string
	rep       *oracle.Report
	exit      int
	timedOut  bool
	died      string // panic / fatal description
	races     []raceReport
	wallMs    int64
	events    int
	completed bool
}

type raceReport struct {
	sig  string
	text string
}

var goEnv = []string{"GOFLAGS=-mod=mod", "GOPROXY=off", "GOSUMDB=off", "GOTOOLCHAIN=local"}

func (d *driver) build(race bool) (string, error) {
	out := filepath.Join(verifDir, ".build", fmt.Sprintf("worker-%d", os.Getpid()))
	args := []string{"build", "-tags", "verif"}
	if race {
		out += "-race"
		args = append(args, "-race")
	}
	if os.Getenv("VERIF_COVER") != "" {
		// development aid: statement coverage of the library under the
		// workloads of this check (go tool covdata on $VERIF_COVER)
		args = append(args, "-cover", "-covermode=atomic", "-coverpkg=verif/cmd/worker,github.com/santhosh-tekuri/raft,github.com/santhosh-tekuri/raft/log,github.com/santhosh-tekuri/raft/mmap")
	}
	if repoDir != "/repo" {
		// build against another copy of the repository (seed / mutation tests
		// work on scratch worktrees): same module file with the replace moved
		mod, err := os.ReadFile(filepath.Join(verifDir, "harness", "go.mod"))
		if err != nil {
			return "", err
		}
		sum, _ := os.ReadFile(filepath.Join(verifDir, "harness", "go.sum"))
		mf := filepath.Join(verifDir, ".build", fmt.Sprintf("go-%d.mod", os.Getpid()))
		if err := os.WriteFile(mf, []byte(strings.Replace(string(mod), "=> /repo", "=> "+repoDir, 1)), 0644); err != nil {
			return "", err
		}
		_ = os.WriteFile(strings.TrimSuffix(mf, ".mod")+".sum", sum, 0644)
		defer os.Remove(mf)
		defer os.Remove(strings.TrimSuffix(mf, ".mod") + ".sum")
		args = append(args, "-modfile="+mf)
	}
	args = append(args, "-o", out, "./cmd/worker")
	cmd := exec.Command("go", args...)
	cmd.Dir = filepath.Join(verifDir, "harness")
	cmd.Env = append(os.Environ(), goEnv...)
	b, err := cmd.CombinedOutput()
	if err != nil {
		return "", fmt.Errorf("go %s: %v\n%s", strings.Join(args, " "), err, b)
	}
	return out, nil
}

func (d *driver) run() int {
	start := time.Now()
	spec, ok := properties[d.prop]
	if !ok {
		fmt.Fprintf(os.Stderr, "check: no check for property %s\n", d.prop)
		return 2
	}
	_ = os.MkdirAll(filepath.Join(verifDir, ".build"), 0755)
	_ = os.MkdirAll(evidenceDir(), 0755)
	needRace, needPlain := false, false
	for _, pe := range spec.Plan {
		if pe.Race {
			needRace = true
		} else {
			needPlain = true
		}
	}
	var err error
	if needPlain {
		if d.workerPlain, err = d.build(false); err != nil {
			fmt.Fprintf(os.Stderr, "check: cannot build worker from %s: %v\n", repoDir, err)
			return 2
		}
		defer os.Remove(d.workerPlain)
	}
	if needRace {
		if d.workerRace, err = d.build(true); err != nil {
			fmt.Fprintf(os.Stderr, "check: cannot build race worker from %s: %v\n", repoDir, err)
			return 2
		}
		defer os.Remove(d.workerRace)
	}
	base := "/dev/shm"
	if st, err := os.Stat(base); err != nil || !st.IsDir() {
		base = os.TempDir()
	}
	// scratch of checks that were killed (the scratch is memory when it is on
	// tmpfs: one leftover of a flooded run once filled it)
	if old, _ := filepath.Glob(filepath.Join(base, "verif.[0-9]*")); len(old) > 0 {
		for _, o := range old {
			pid, err := strconv.Atoi(strings.TrimPrefix(filepath.Base(o), "verif."))
			if err != nil || pid == os.Getpid() || syscall.Kill(pid, 0) == nil {
				continue
			}
			if _, err := os.Stat(filepath.Join(o, "KEEP")); err == nil {
				continue
			}
			_ = os.RemoveAll(o)
		}
	}
	d.scratch = filepath.Join(base, fmt.Sprintf("verif.%d", os.Getpid()))
	d.outBase = filepath.Join(d.scratch, "out")
	_ = os.MkdirAll(d.outBase, 0755)
	if d.keep {
		_ = os.WriteFile(filepath.Join(d.scratch, "KEEP"), nil, 0644)
		fmt.Printf("keeping run directories under %s\n", d.outBase)
	} else {
		defer os.RemoveAll(d.scratch)
	}

	// fixed, seed-determined case list
	rng := rand.New(rand.NewSource(d.seed*7919 + int64(len(d.prop))))
	var specs []runSpec
	for _, pe := range spec.Plan {
		if d.only != "" && !strings.Contains(pe.Scenario+" "+pe.Params, d.only) {
			continue
		}
		n := pe.Quick
		if d.tier == "thorough" {
			n = pe.Thorough
		}
		if d.runsOverride > 0 {
			n = d.runsOverride
		}
		for i := 0; i < n; i++ {
			s := rng.Int63n(1 << 40)
			name := fmt.Sprintf("%s-%s-%d", pe.Engine, pe.Scenario, s)
			if pe.Race {
				name += "-race"
			}
			specs = append(specs, runSpec{pe: pe, seed: s, name: name})
		}
	}
	_ = os.RemoveAll(witnessDir(d.prop))
	results := d.execAll(specs)

	// aggregate
	agg := newAggregate(d.prop, spec)
	for _, r := range results {
		agg.add(r)
	}
	// minimum non-trivial coverage: draw further seeds (up to 3x the plan)
	extra := 0
	for agg.nontrivial() < spec.minNontrivial(d.tier) && extra < 2 && d.only == "" && d.runsOverride == 0 {
		extra++
		var more []runSpec
		for _, s := range specs {
			s2 := s
			s2.seed = rng.Int63n(1 << 40)
			s2.name = fmt.Sprintf("%s-%s-%d", s.pe.Engine, s.pe.Scenario, s2.seed)
			if s.pe.Race {
				s2.name += "-race"
			}
			more = append(more, s2)
		}
		for _, r := range d.execAll(more) {
			agg.add(r)
		}
	}

	known := loadKnown()
	code := 0
	seenKnown := map[string]bool{}
	for _, v := range agg.violations {
		if kf := known.match(d.prop, v.f.Sig); kf != nil {
			if !seenKnown[kf.Signature] {
				seenKnown[kf.Signature] = true
				fmt.Printf("KNOWN-FINDING: property=%s %s\n", d.prop, kf.What)
			}
			agg.knownHits++
			continue
		}
		// keep the witness
		wdir := filepath.Join(witnessDir(d.prop), v.run.spec.name)
		_ = os.MkdirAll(filepath.Dir(wdir), 0755)
		_ = os.RemoveAll(wdir)
		if err := copyTree(v.run.dir, wdir); err != nil {
			wdir = v.run.dir
		}
		_ = os.WriteFile(filepath.Join(wdir, "finding.json"), mustJSON(v.f), 0644)
		fmt.Printf("VIOLATION property=%s replay=%s\n", d.prop, wdir)
		fmt.Printf("  rule=%s seq=%d: %s\n", v.f.Rule, v.f.Seq, v.f.Msg)
		agg.unknownViolations++
		code = 1
	}
	wall := time.Since(start).Seconds()
	evd := agg.evidence(d.tier, d.seed, wall)
	path := filepath.Join(evidenceDir(), d.prop+".json")
	if err := os.WriteFile(path, mustJSON(evd), 0644); err != nil {
		fmt.Fprintf(os.Stderr, "check: cannot write evidence: %v\n", err)
		return 2
	}
	fmt.Printf("%s %s: %d runs, %d non-trivial (%d distinct), %d events, %d inconclusive, %d violations (%d known) in %.1fs\n",
		d.prop, d.tier, agg.runs, agg.nontrivial(), len(agg.shapes)+agg.extraDistinct, agg.events, agg.inconclusive, len(agg.violations), agg.knownHits, wall)
	if code == 0 && agg.nontrivial() < spec.minNontrivial(d.tier) && d.only == "" && d.runsOverride == 0 {
		fmt.Fprintf(os.Stderr, "check: only %d non-trivial runs (minimum %d): the check is broken, not a verdict\n", agg.nontrivial(), spec.minNontrivial(d.tier))
		return 2
	}
	if agg.inconclusive*3 > agg.runs {
		fmt.Fprintf(os.Stderr, "check: warning: %d of %d runs inconclusive\n", agg.inconclusive, agg.runs)
	}
	return code
}

func mustJSON(v interface{}) []byte {
	b, err := json.MarshalIndent(v, "", " ")
	if err != nil {
		panic(err)
	}
	return append(b, '\n')
}

func (d *driver) execAll(specs []runSpec) []*runResult {
	par := d.par
	if par == 0 {
		par = 10
		if p := properties[d.prop].Par; p > 0 {
			par = p
		}
	}
	results := make([]*runResult, len(specs))
	var wg sync.WaitGroup
	sem := make(chan struct{}, par)
	for i := range specs {
		wg.Add(1)
		sem <- struct{}{}
		go func(i int) {
			defer wg.Done()
			defer func() { <-sem }()
			results[i] = d.execOne(specs[i])
		}(i)
	}
	wg.Wait()
	return results
}

func (d *driver) execOne(s runSpec) *runResult {
	res := &runResult{spec: s}
	out := filepath.Join(d.outBase, s.name)
	_ = os.RemoveAll(out)
	_ = os.MkdirAll(out, 0755)
	res.dir = out
	bin := d.workerPlain
	if s.pe.Race {
		bin = d.workerRace
	}
	wd := s.pe.Watchdog
	if wd == 0 {
		wd = 120 * time.Second
	}
	if s.pe.Race {
		wd *= 3
	}
	args := []string{"-s", "QUIT", "-k", "10", fmt.Sprint(int(wd.Seconds())), bin,
		"-engine", s.pe.Engine, "-scenario", s.pe.Scenario, "-seed", fmt.Sprint(s.seed),
		"-out", out, "-scratch", filepath.Join(d.scratch, "st-"+s.name), "-params", s.pe.Params}
	if s.pe.Strace {
		pre := []string{"-s", "QUIT", "-k", "10", fmt.Sprint(int(wd.Seconds())), "strace", "-f", "-qq", "-y", "-s", "900",
			"-e", "trace=rename,renameat,renameat2,fsync,fdatasync,write", "-e", "signal=none", "-o", filepath.Join(out, "strace.txt")}
		args = append(pre, args[5:]...)
	}
	cmd := exec.Command("timeout", args...)
	stderr, _ := os.Create(filepath.Join(out, "stderr.txt"))
	cmd.Stdout = stderr
	cmd.Stderr = stderr
	cmd.Env = append(os.Environ(), "GORACE=halt_on_error=0 log_path="+filepath.Join(out, "race"), "GOTRACEBACK=all")
	if cd := os.Getenv("VERIF_COVER"); cd != "" {
		_ = os.MkdirAll(cd, 0755)
		cmd.Env = append(cmd.Env, "GOCOVERDIR="+cd)
	}
	t0 := time.Now()
	err := cmd.Run()
	stderr.Close()
	res.wallMs = time.Since(t0).Milliseconds()
	_ = os.RemoveAll(filepath.Join(d.scratch, "st-"+s.name))
	if err != nil {
		if ee, ok := err.(*exec.ExitError); ok {
			res.exit = ee.ExitCode()
		} else {
			res.exit = -1
		}
	}
	if res.exit == 124 || res.exit == 137 {
		res.timedOut = true
	}
	_ = os.WriteFile(filepath.Join(out, "cmdline.txt"), []byte(strings.Join(args[5:], " ")+"\n"), 0644)
	d.analyze(res)
	if s.pe.Strace {
		analyzeStrace(filepath.Join(out, "strace.txt"), res.rep)
		_ = os.Remove(filepath.Join(out, "strace.txt.raw"))
	}
	return res
}

var (
	reRaftFrame = regexp.MustCompile(`github\.com/santhosh-tekuri/raft(?:/log|/mmap)?\.([A-Za-z0-9_.()*]+)`)
)

// analyze reads the event log and stderr of a finished run.
func (d *driver) analyze(res *runResult) {
	a := oracle.New()
	nrec, err := ev.Scan(filepath.Join(res.dir, "events.jsonl"), a.Feed)
	if err != nil && nrec == 0 {
		res.rep = &oracle.Report{Stats: map[string]int64{}, Samples: map[string][]string{}, Inconclusive: []string{"no event log: " + err.Error()}}
	} else {
		res.rep = a.Finish()
		res.events = nrec
	}
	if _, err := os.Stat(filepath.Join(res.dir, "result.json")); err == nil {
		res.completed = true
	}
	b, _ := os.ReadFile(filepath.Join(res.dir, "stderr.txt"))
	text := string(b)
	if res.timedOut {
		res.rep.Inconclusive = append(res.rep.Inconclusive, "watchdog killed the run")
		for _, sl := range stuckStateLoops(text) {
			where := strings.Join(sl.frames, " < ")
			msg := fmt.Sprintf("the run had to be killed; the dump shows a node's raft goroutine blocked [%s] in %s: the node serves nothing any more", sl.state, where)
			res.rep.Findings = append(res.rep.Findings, oracle.Finding{Prop: "C15", Rule: "state-loop-blocked", Sig: "state-loop-blocked:" + sl.frames[0], Msg: msg})
			if sl.inTransfer() {
				res.rep.Findings = append(res.rep.Findings, oracle.Finding{Prop: "C16", Rule: "state-loop-blocked", Sig: "state-loop-blocked:" + sl.frames[0], Msg: msg})
			}
		}
	} else if !res.completed {
		// the process died
		what := "process exited without completing"
		for _, key := range []string{"fatal error:", "panic:", "unexpected fault address", "SIGSEGV", "SIGBUS"} {
			if i := strings.Index(text, key); i >= 0 {
				end := i + 200
				if end > len(text) {
					end = len(text)
				}
				what = strings.SplitN(text[i:end], "\n", 2)[0]
				break
			}
		}
		frames := reRaftFrame.FindAllStringSubmatch(text, 12)
		var fs []string
		for _, f := range frames {
			name := f[1]
			if strings.HasPrefix(name, "Verif") || strings.HasPrefix(name, "verif") {
				continue
			}
			if len(fs) == 0 || fs[len(fs)-1] != name {
				fs = append(fs, name)
			}
			if len(fs) == 3 {
				break
			}
		}
		res.died = what + " @ " + strings.Join(fs, " < ")
		if len(fs) == 0 && !strings.Contains(text, "santhosh-tekuri/raft") && (strings.Contains(text, "main.") || text == "") {
			// the harness itself fell over (or was killed): not a verdict on the library
			res.rep.Inconclusive = append(res.rep.Inconclusive, "harness died: "+what)
			fmt.Fprintf(os.Stderr, "check: harness died in %s: %s\n", res.spec.name, what)
			goto races
		}
		sig := "process-died:" + stripDigits(what) + "@" + strings.Join(fs, "<")
		prop := "C15"
		if res.spec.pe.Engine == "C" || res.spec.pe.Engine == "D" {
			// the log package / the codecs alone, on legal input: a panic is a
			// wrong answer of the operation that was running
			prop = d.prop
		}
		res.rep.Findings = append(res.rep.Findings, oracle.Finding{Prop: prop, Rule: "process-died", Sig: sig, Msg: res.died + fmt.Sprintf(" (exit %d)", res.exit)})
		// the library's own assertion that an entry continues the log
		// (storage.appendEntry): what the event-based rule append-not-at-end
		// would report, had the process lived to emit the event (C04)
		if i := strings.Index(text, "raft.assert("); i >= 0 {
			rest := text[i:]
			if len(rest) > 400 {
				rest = rest[:400]
			}
			if strings.Contains(rest, "(*storage).appendEntry(") {
				res.rep.Findings = append(res.rep.Findings, oracle.Finding{Prop: "C04", Rule: "append-not-at-end", Sig: "append-not-at-end:assertion", Msg: "the node appends an entry that does not continue its log: the library's own assertion in storage.appendEntry ends the process (" + res.died + ")"})
			}
		}
		// reads of invalidated log data by replication / state machine belong to C09 as well
		if strings.Contains(text, "replication") || strings.Contains(text, "stateMachine") || strings.Contains(text, "ViewAt") {
			if strings.Contains(text, "unexpected fault address") || strings.Contains(text, "nil pointer") {
				res.rep.Findings = append(res.rep.Findings, oracle.Finding{Prop: "C09", Rule: "log-data-invalidated-under-reader", Sig: "log-data-invalidated-under-reader:" + strings.Join(fs, "<"), Msg: res.died})
			}
		}
	}
races:
	// race reports
	matches, _ := filepath.Glob(filepath.Join(res.dir, "race.*"))
	for _, m := range matches {
		rb, _ := os.ReadFile(m)
		for _, block := range strings.Split(string(rb), "==================") {
			if !strings.Contains(block, "WARNING: DATA RACE") {
				continue
			}
			res.races = append(res.races, raceReport{sig: raceSig(block), text: block})
		}
	}
	seen := map[string]bool{}
	for _, rr := range res.races {
		if rr.sig == "?|?" {
			// neither access is in the library: a race of the harness itself
			res.rep.Stats["harness-only-race-reports"]++
			fmt.Fprintf(os.Stderr, "check: harness-only race report in %s (ignored for the verdict):\n%s\n", res.spec.name, firstLines(rr.text, 12))
			continue
		}
		if seen[rr.sig] {
			continue
		}
		seen[rr.sig] = true
		res.rep.Findings = append(res.rep.Findings, oracle.Finding{Prop: "C15", Rule: "data-race", Sig: "data-race:" + rr.sig, Msg: firstLines(rr.text, 14)})
	}
	if res.spec.pe.Race {
		res.rep.Stats["race-runs"]++
	}
}

func stripDigits(s string) string {
	var b strings.Builder
	for _, c := range s {
		if c >= '0' && c <= '9' {
			continue
		}
		b.WriteRune(c)
	}
	return strings.TrimSpace(b.String())
}

func firstLines(s string, n int) string {
	l := strings.Split(strings.TrimSpace(s), "\n")
	if len(l) > n {
		l = l[:n]
	}
	return strings.Join(l, "\n")
}

// raceSig: the two accessing functions (first raft-package frame of each
// stack), order-normalised, line numbers stripped.
func raceSig(block string) string {
	var tops []string
	sections := regexp.MustCompile(`(?m)^(?:Write|Read|Previous write|Previous read)[^\n]*\n((?:  .*\n|\s*\n)*)`).FindAllStringSubmatch(block, -1)
	for _, s := range sections {
		// the function that makes the access: the first frame that is not in
		// the runtime (a map access shows as runtime.mapassign called from
		// the function that races). A hook callback of the harness that races
		// with the harness is the harness's own race, whoever called the hook.
		top := "?"
		for _, line := range strings.Split(s[1], "\n") {
			if !strings.HasPrefix(line, "  ") || strings.HasPrefix(line, "   ") {
				continue // not a function line (file lines are indented deeper)
			}
			fn := strings.TrimSpace(line)
			if strings.HasPrefix(fn, "runtime.") || strings.HasPrefix(fn, "sync.") || strings.HasPrefix(fn, "sync/atomic.") || strings.HasPrefix(fn, "internal/") {
				continue
			}
			if f := reRaftFrame.FindStringSubmatch(fn); f != nil {
				top = f[1]
			}
			break
		}
		tops = append(tops, top)
		if len(tops) == 2 {
			break
		}
	}
	sort.Strings(tops)
	return strings.Join(tops, "|")
}

func copyTree(src, dst string) error {
	return filepath.Walk(src, func(path string, info os.FileInfo, err error) error {
		if err != nil {
			return err
		}
		rel, _ := filepath.Rel(src, path)
		t := filepath.Join(dst, rel)
		if info.IsDir() {
			return os.MkdirAll(t, 0755)
		}
		b, err := os.ReadFile(path)
		if err != nil {
			return err
		}
		return os.WriteFile(t, b, 0644)
	})
}

func shapeHash(shape []string) string {
	h := sha1.Sum([]byte(strings.Join(shape, " ")))
	return fmt.Sprintf("%x", h[:6])
}

// replay re-runs the oracles on a saved run directory.
func doReplay(prop, dir string) int {
	recs, err := ev.ReadFile(filepath.Join(dir, "events.jsonl"))
	if err != nil {
		fmt.Fprintf(os.Stderr, "replay: %v\n", err)
		return 2
	}
	a := oracle.New()
	for _, r := range recs {
		a.Feed(r)
	}
	rep := a.Finish()
	code := 0
	for _, f := range rep.Findings {
		if f.Prop == prop {
			fmt.Printf("VIOLATION property=%s replay=%s\n  rule=%s seq=%d: %s\n", prop, dir, f.Rule, f.Seq, f.Msg)
			code = 1
		} else {
			fmt.Printf("(other property %s rule=%s: %s)\n", f.Prop, f.Rule, f.Msg)
		}
	}
	if b, err := os.ReadFile(filepath.Join(dir, "cmdline.txt")); err == nil {
		fmt.Printf("to re-execute: %s", b)
	}
	return code
}
