package main

import (
	"regexp"
	"strings"
)

// A run that the watchdog had to kill leaves a dump of all goroutines
// (SIGQUIT, GOTRACEBACK=all). The raft goroutine of a node (stateLoop) waits
// in its own select between events; whatever it calls from there either
// returns at once or is bounded by a few heartbeat timeouts. A stateLoop that
// the dump shows blocked inside a callee with a wait time the runtime reports
// in minutes is a node that no longer serves anything: C15 (deadlock) - and
// C16 when the callee belongs to the leadership transfer ("fails with an
// error and leaves the cluster able to keep or elect a leader").

var reGoroutineHead = regexp.MustCompile(`^goroutine \d+ (?:[a-z]+=\S+ )*\[([^\]]+)\]:$`)

// function name without the argument list the traceback appends
var reFuncName = regexp.MustCompile(`^(?:\(\*?[A-Za-z0-9_]+\)\.)?[A-Za-z0-9_.]+`)

type stuckLoop struct {
	state  string   // e.g. "chan receive, 1 minutes"
	frames []string // raft functions from the blocked callee up to stateLoop
}

// stuckStateLoops returns the state loops that the dump shows blocked inside
// a callee for at least a minute.
func stuckStateLoops(dump string) []stuckLoop {
	var out []stuckLoop
	for _, block := range strings.Split(dump, "\n\n") {
		lines := strings.Split(strings.TrimSpace(block), "\n")
		if len(lines) == 0 {
			continue
		}
		m := reGoroutineHead.FindStringSubmatch(lines[0])
		if m == nil || !strings.Contains(m[1], "minutes") {
			continue
		}
		var fs []string
		for _, l := range lines[1:] {
			if strings.HasPrefix(l, "\t") || strings.HasPrefix(l, "created by") {
				continue
			}
			if f := reRaftFrame.FindStringSubmatch(l); f != nil {
				if n := reFuncName.FindString(f[1]); n != "" {
					fs = append(fs, n)
				}
			}
		}
		if len(fs) < 2 {
			continue
		}
		// the goroutine is a state loop blocked in a callee if stateLoop is on
		// the stack but not as the innermost library frame
		idx := -1
		for i, f := range fs {
			if f == "(*Raft).stateLoop" {
				idx = i
			}
		}
		if idx <= 0 {
			continue
		}
		out = append(out, stuckLoop{state: m[1], frames: fs[:idx+1]})
	}
	return out
}

func (s stuckLoop) inTransfer() bool {
	for _, f := range s.frames {
		if strings.Contains(f, "ransfer") {
			return true
		}
	}
	return false
}
