package main

import (
	"os"
	"strings"
	"testing"
)

// raceSig must name library functions for races of the library (also when the
// access itself is inside the runtime, e.g. a map) and "?|?" for a race between
// two pieces of harness code, whoever called them.
func TestRaceSig(t *testing.T) {
	cases := []struct {
		file    string
		harness bool
	}{
		{"../../../findings/D4/witness.txt", false},
		{"../../../findings/D10/witness.txt", false},
		{"../../../findings/D11/witness.txt", false},
		{"../../../findings/D19/witness.txt", false},
	}
	for _, c := range cases {
		b, err := os.ReadFile(c.file)
		if err != nil {
			t.Fatal(err)
		}
		n := 0
		for _, block := range strings.Split(string(b), "==================") {
			if !strings.Contains(block, "WARNING: DATA RACE") {
				continue
			}
			n++
			sig := raceSig(block)
			if (sig == "?|?") != c.harness {
				t.Errorf("%s: signature %q", c.file, sig)
			}
		}
		if n == 0 {
			t.Logf("%s: no race block", c.file)
		}
	}
	harness := `WARNING: DATA RACE
Write at 0x00c0000be0e8 by main goroutine:
  main.(*engineA).fault()
      /verif/harness/cmd/worker/enginea.go:739 +0x30c9
  main.(*engineA).runProfile()
      /verif/harness/cmd/worker/enginea.go:234 +0x590

Previous read at 0x00c0000be0e8 by goroutine 8:
  main.(*Recorder).emitNode()
      /verif/harness/cmd/worker/recorder.go:101 +0x18b
  main.runEngineA.(*Recorder).install.func2()
      /verif/harness/cmd/worker/recorder.go:194 +0x149
  github.com/santhosh-tekuri/raft/log.verifDurable()
      /repo/log/verif_on.go:34 +0xec
  github.com/santhosh-tekuri/raft/log.(*segment).sync()
      /repo/log/segment.go:123 +0x344
`
	if sig := raceSig(harness); sig != "?|?" {
		t.Errorf("harness race: signature %q", sig)
	}
	mapRace := `WARNING: DATA RACE
Write at 0x00c0000be0e8 by goroutine 9:
  runtime.mapassign_fast64()
      /usr/local/go/src/runtime/map_fast64.go:93 +0x0
  github.com/santhosh-tekuri/raft.(*snapshots).open()
      /repo/snapshots.go:130 +0x1a4

Previous read at 0x00c0000be0e8 by goroutine 8:
  runtime.mapaccess1_fast64()
      /usr/local/go/src/runtime/map_fast64.go:13 +0x0
  github.com/santhosh-tekuri/raft.(*snapshots).applyRetain()
      /repo/snapshots.go:90 +0x149
`
	if sig := raceSig(mapRace); sig == "?|?" || !strings.Contains(sig, "open") {
		t.Errorf("map race: signature %q", sig)
	}
}
