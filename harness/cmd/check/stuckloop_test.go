package main

import "testing"

const dumpStuck = `SIGQUIT: quit
PC=0x47d1a1 m=0 sigcode=0

goroutine 0 gp=0xa0e6c0 m=0 mp=0xa0f700 [idle]:
runtime.futex(0xa0f840, 0x80, 0x0, 0x0, 0x0, 0x0)
	/usr/lib/go-1.23/src/runtime/sys_linux_amd64.s:557 +0x21

goroutine 20 gp=0xc000184380 m=nil [chan receive, 1 minutes]:
runtime.gopark(0x0?, 0x0?, 0x0?, 0x0?, 0x0?)
	/usr/lib/go-1.23/src/runtime/proc.go:424 +0xce
runtime.chanrecv1(0xc0001b0000?, 0x0?)
	/usr/lib/go-1.23/src/runtime/chan.go:489 +0x12
github.com/santhosh-tekuri/raft.(*safeTimer).stop(...)
	/repo/util.go:104
github.com/santhosh-tekuri/raft.(*transfer).reply(0xc0001b01c8, {0x696338, 0xc00031e220})
	/repo/transfer.go:40 +0x5c
github.com/santhosh-tekuri/raft.(*leader).onTransferTimeout(0xc0001b0000)
	/repo/transfer.go:90 +0x1a5
github.com/santhosh-tekuri/raft.(*Raft).stateLoop(0xc000208140)
	/repo/raft.go:378 +0x8e7
github.com/santhosh-tekuri/raft.(*Raft).Serve(0xc000208140, {0x695f90, 0xc000146230})
	/repo/raft.go:243 +0x79e
main.(*Cluster).start.func2()
	/verif/harness/cmd/worker/cluster.go:215 +0x4a
created by main.(*Cluster).start in goroutine 1
	/verif/harness/cmd/worker/cluster.go:214 +0x11f7

goroutine 21 gp=0xc000184540 m=nil [select, 2 minutes]:
runtime.gopark(0xc00005de90?, 0x9?, 0x0?, 0x0?, 0x0?)
	/usr/lib/go-1.23/src/runtime/proc.go:424 +0xce
github.com/santhosh-tekuri/raft.(*Raft).stateLoop(0xc000208280)
	/repo/raft.go:300 +0x8e7
github.com/santhosh-tekuri/raft.(*Raft).Serve(0xc000208280, {0x695f90, 0xc000146240})
	/repo/raft.go:243 +0x79e

goroutine 22 gp=0xc000184700 m=nil [chan receive]:
github.com/santhosh-tekuri/raft.(*leader).release(0xc0001b0000)
	/repo/leader.go:140
github.com/santhosh-tekuri/raft.(*Raft).stateLoop(0xc0002083c0)
	/repo/raft.go:290 +0x8e7
`

func TestStuckStateLoops(t *testing.T) {
	got := stuckStateLoops(dumpStuck)
	if len(got) != 1 {
		t.Fatalf("got %d stuck loops, want 1: %+v", len(got), got)
	}
	if got[0].frames[0] != "(*safeTimer).stop" || !got[0].inTransfer() {
		t.Fatalf("unexpected: %+v", got[0])
	}
}
