package main

const assumeA = "hooks (build tag verif) report node state faithfully; oracles see what the executions did, nothing else"

var stdAssumptions = []string{
	assumeA,
	"in-process hard crash = node cut off the network + copy of its storage directory taken at a hook point (process-kill model: completed file operations and bytes written through shared mappings survive)",
	"the operator clears the stale lock file after a crash, as the library documents",
}

func ge(key string, n int64) func(map[string]int64) bool {
	return func(st map[string]int64) bool { return st[key] >= n }
}

func all(fs ...func(map[string]int64) bool) func(map[string]int64) bool {
	return func(st map[string]int64) bool {
		for _, f := range fs {
			if !f(st) {
				return false
			}
		}
		return true
	}
}

var properties = map[string]propSpec{
	"C01": {
		Level: "exploration",
		Plan: []planEntry{
			{Engine: "A", Scenario: "election", Quick: 36, Thorough: 400},
			{Engine: "A", Scenario: "general", Quick: 10, Thorough: 150},
			{Engine: "A", Scenario: "member", Quick: 6, Thorough: 80},
		},
		Rule:       "seeded live-cluster runs (3-6 real nodes, in-memory network, election-heavy nemesis: leader isolation, one-way cuts, stalls with late release, restarts, hard crashes at vote hooks, transfers, membership churn); a run is non-trivial if at least 2 leaders were elected after the bootstrap election and at least 6 vote requests were handled; distinct = distinct abstract trace (sequence of elections, state changes, faults, crashes, truncations)",
		Nontrivial: all(ge("leaders-elected", 3), ge("vote-requests", 6)),
		MinQuick:   20, MinThorough: 200,
		Counters:     []string{"elections", "leaders-elected", "terms-with-leader", "vote-requests", "votes-granted", "grants-checked-against-disk", "leader-requests-checked", "crashes", "crash-restarts", "graceful-restarts", "faults", "rpcs", "state-changes"},
		Prefixes:     []string{"votes-refused:", "fault:"},
		SampleTopics: []string{"election"},
		Assumptions:  stdAssumptions,
	},
	"C02": {
		Level: "exploration",
		Plan: []planEntry{
			{Engine: "A", Scenario: "general", Quick: 24, Thorough: 300},
			{Engine: "A", Scenario: "election", Quick: 12, Thorough: 150},
			{Engine: "A", Scenario: "everything", Quick: 8, Thorough: 100},
		},
		Rule:       "seeded live-cluster runs with continuous client updates under partitions, stalls, crashes, restarts, snapshots and membership changes; non-trivial if at least 2 leaders were elected after bootstrap and at least 50 entries were observed committed; distinct = distinct abstract trace",
		Nontrivial: all(ge("leaders-elected", 3), ge("committed-entries", 50)),
		MinQuick:   20, MinThorough: 200,
		Counters:    []string{"committed-entries", "commit-advances", "leader-commit-advances", "commit-agreements", "leader-completeness-checks", "leaders-elected", "truncations", "log-resets", "compactions", "crashes", "faults"},
		Prefixes:    []string{"fault:"},
		Assumptions: stdAssumptions,
	},
	"C03": {
		Level: "exploration",
		Plan: []planEntry{
			{Engine: "A", Scenario: "load", Quick: 20, Thorough: 250},
			{Engine: "A", Scenario: "snapshot", Quick: 14, Thorough: 200},
			{Engine: "A", Scenario: "general", Quick: 8, Thorough: 100},
		},
		Rule:       "seeded live-cluster runs with pipelined multi-client load, leader changes, snapshots, installs, restarts; recording state machine with unique command ids; non-trivial if at least 200 Update calls on at least 3 state-machine incarnations were checked; distinct = distinct abstract trace",
		Nontrivial: all(ge("fsm-updates", 200), ge("incarnations", 3)),
		MinQuick:   20, MinThorough: 200,
		Counters:    []string{"fsm-updates", "applied", "global-sequence-length", "incarnations", "fsm-restores", "restores-checked-against-ledger", "snapshots-taken", "crash-restarts", "graceful-restarts", "leaders-elected", "log-dumps"},
		Prefixes:    []string{"snapshot-installs:"},
		Assumptions: stdAssumptions,
	},
	"C04": {
		Level: "exploration",
		Plan: []planEntry{
			{Engine: "A", Scenario: "general", Quick: 20, Thorough: 250},
			{Engine: "A", Scenario: "election", Quick: 12, Thorough: 150},
		},
		Rule:       "seeded live-cluster runs producing divergent uncommitted suffixes (isolated leaders, stalls released late, crashes) then healing; every append / reopened log / final dump is a sighting in a global (index, term) ledger; non-trivial if at least one truncation or log reset happened and at least 500 sightings were re-checked against the ledger; distinct = distinct abstract trace",
		Nontrivial: all(ge("ledger-rechecks", 500)),
		MinQuick:   16, MinThorough: 150,
		Counters:    []string{"appends", "leader-appends", "ledger-rechecks", "truncations", "log-resets", "log-dumps", "incarnations", "leaders-elected"},
		Assumptions: stdAssumptions,
	},
	"C07": {
		Level: "exploration",
		Plan: []planEntry{
			{Engine: "A", Scenario: "load", Quick: 24, Thorough: 300},
			{Engine: "A", Scenario: "transfer", Quick: 8, Thorough: 100},
			{Engine: "A", Scenario: "general", Quick: 8, Thorough: 100},
		},
		Rule:       "seeded live-cluster runs with 4-8 client goroutines submitting Update/Read/DirtyRead/Barrier tasks to any node, with leader changes, partitions, restarts, transfers, self-demotion; history recorded at the API boundary (call before submit, return after Done; operations that never return stay open); non-trivial if at least 300 client operations completed and at least one leader change happened; distinct = distinct abstract trace",
		Nontrivial: all(ge("client-ops", 300), ge("leaders-elected", 2)),
		MinQuick:   20, MinThorough: 200,
		Counters:    []string{"client-ops", "client-ops-open", "reads-checked", "leader-reads-checked", "real-time-pairs-covered", "global-sequence-length", "leaders-elected", "transfers-succeeded"},
		Prefixes:    []string{"client-ret:", "client-op:"},
		Assumptions: stdAssumptions,
	},
}
