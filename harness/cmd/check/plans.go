package main

import "fmt"

const assumeA = "hooks (build tag verif) report node state faithfully; oracles see what the executions did, nothing else"

var stdAssumptions = []string{
	assumeA,
	"in-process hard crash = node cut off the network + copy of its storage directory taken at a hook point (process-kill model: completed file operations and bytes written through shared mappings survive)",
	"the operator clears the stale lock file after a crash, as the library documents",
}

func ge(key string, n int64) func(map[string]int64) bool {
	return func(st map[string]int64) bool { return st[key] >= n }
}

func all(fs ...func(map[string]int64) bool) func(map[string]int64) bool {
	return func(st map[string]int64) bool {
		for _, f := range fs {
			if !f(st) {
				return false
			}
		}
		return true
	}
}

func either(fs ...func(map[string]int64) bool) func(map[string]int64) bool {
	return func(st map[string]int64) bool {
		for _, f := range fs {
			if f(st) {
				return true
			}
		}
		return false
	}
}

var properties = map[string]propSpec{
	"C01": {
		Level: "exploration",
		Plan: []planEntry{
			{Engine: "A", Scenario: "election", Quick: 36, Thorough: 400},
			{Engine: "A", Scenario: "general", Quick: 10, Thorough: 150},
			{Engine: "A", Scenario: "member", Quick: 6, Thorough: 80},
		},
		Rule:       "seeded live-cluster runs (3-6 real nodes, in-memory network, election-heavy nemesis: leader isolation, one-way cuts, stalls with late release, restarts, hard crashes at vote hooks, transfers, membership churn); a run is non-trivial if at least 2 leaders were elected after the bootstrap election and at least 6 vote requests were handled; distinct = distinct abstract trace (sequence of elections, state changes, faults, crashes, truncations)",
		Nontrivial: all(ge("leaders-elected", 3), ge("vote-requests", 6)),
		MinQuick:   20, MinThorough: 200,
		Counters:     []string{"elections", "leaders-elected", "terms-with-leader", "vote-requests", "votes-granted", "grants-checked-against-disk", "leader-requests-checked", "crashes", "crash-restarts", "graceful-restarts", "faults", "rpcs", "state-changes"},
		Prefixes:     []string{"votes-refused:", "fault:"},
		SampleTopics: []string{"election"},
		Assumptions:  stdAssumptions,
	},
	"C02": {
		Level: "exploration",
		Plan: []planEntry{
			{Engine: "A", Scenario: "general", Quick: 24, Thorough: 300},
			{Engine: "A", Scenario: "election", Quick: 12, Thorough: 150},
			{Engine: "A", Scenario: "everything", Quick: 8, Thorough: 100},
			{Engine: "A", Scenario: "stale-candidate", Quick: 6, Thorough: 60},
			{Engine: "A", Scenario: "stale-suffix-install", Params: "seg=1024", Quick: 4, Thorough: 40},
		},
		Rule:       "directed scenarios (stale ex-leader with a long uncommitted tail campaigning against a voter with fewer but newer entries; stale suffix covering a snapshot index) plus seeded live-cluster runs with continuous client updates under partitions, stalls, crashes, restarts, snapshots and membership changes; non-trivial if at least 2 leaders were elected after bootstrap and at least 50 entries were observed committed; distinct = distinct abstract trace",
		Nontrivial: all(ge("leaders-elected", 3), ge("committed-entries", 50)),
		MinQuick:   20, MinThorough: 200,
		Counters:    []string{"committed-entries", "commit-advances", "leader-commit-advances", "commit-agreements", "leader-completeness-checks", "leaders-elected", "truncations", "log-resets", "compactions", "crashes", "faults"},
		Prefixes:    []string{"fault:"},
		Assumptions: stdAssumptions,
	},
	"C03": {
		Level: "exploration",
		Plan: []planEntry{
			{Engine: "A", Scenario: "load", Quick: 20, Thorough: 250},
			{Engine: "A", Scenario: "snapshot", Quick: 14, Thorough: 200},
			{Engine: "A", Scenario: "general", Quick: 8, Thorough: 100},
			{Engine: "A", Scenario: "stale-suffix-install", Params: "seg=1024", Quick: 6, Thorough: 60},
		},
		Rule:       "directed scenario (node with an uncommitted old-term suffix brought up to date by snapshot installation) plus seeded live-cluster runs with pipelined multi-client load, leader changes, snapshots, installs, restarts; recording state machine with unique command ids; non-trivial if at least 200 Update calls on at least 3 state-machine incarnations were checked; distinct = distinct abstract trace",
		Nontrivial: all(ge("fsm-updates", 200), ge("incarnations", 3)),
		MinQuick:   20, MinThorough: 200,
		Counters:    []string{"fsm-updates", "applied", "global-sequence-length", "incarnations", "fsm-restores", "restores-checked-against-ledger", "snapshots-taken", "crash-restarts", "graceful-restarts", "leaders-elected", "log-dumps"},
		Prefixes:    []string{"snapshot-installs:"},
		Assumptions: stdAssumptions,
	},
	"C04": {
		Level: "exploration",
		Plan: []planEntry{
			{Engine: "A", Scenario: "general", Quick: 20, Thorough: 250},
			{Engine: "A", Scenario: "election", Quick: 12, Thorough: 150},
			{Engine: "A", Scenario: "stale-candidate", Quick: 4, Thorough: 40},
			{Engine: "A", Scenario: "stale-suffix-install", Params: "seg=1024", Quick: 4, Thorough: 40},
			{Engine: "A", Scenario: "double-failed-leadership", Quick: 8, Thorough: 80},
		},
		Rule:       "directed scenarios (two consecutive leaderships that fail before replicating leave different uncommitted entries at one index, then the holder of the older one leads; stale candidate; stale suffix under installation) and seeded live-cluster runs producing divergent uncommitted suffixes (isolated leaders, stalls released late, crashes) then healing; every append / reopened log / final dump is a sighting in a global (index, term) ledger; non-trivial if at least one truncation or log reset happened and at least 500 sightings were re-checked against the ledger; distinct = distinct abstract trace",
		Nontrivial: all(ge("ledger-rechecks", 500)),
		MinQuick:   16, MinThorough: 150,
		Counters:    []string{"appends", "leader-appends", "ledger-rechecks", "acknowledged-requests-compared-with-log", "truncations", "log-resets", "log-dumps", "incarnations", "leaders-elected"},
		Assumptions: stdAssumptions,
	},
	"C07": {
		Level: "exploration",
		Plan: []planEntry{
			{Engine: "A", Scenario: "load", Quick: 24, Thorough: 300},
			{Engine: "A", Scenario: "transfer", Quick: 8, Thorough: 100},
			{Engine: "A", Scenario: "general", Quick: 8, Thorough: 100},
			{Engine: "A", Scenario: "stale-queue-reelection", Quick: 20, Thorough: 200},
			{Engine: "A", Scenario: "slow-fsm", Quick: 10, Thorough: 100},
		},
		Rule:       "directed scenario (leader deposed with an update pending at index k, index k overwritten by the next leader but not known committed, old leader re-elected by timeout-now so that its no-op lands at k+1) and seeded live-cluster runs with 4-8 client goroutines submitting Update/Read/DirtyRead/Barrier tasks to any node, with leader changes, partitions, restarts, transfers, self-demotion; history recorded at the API boundary (call before submit, return after Done; operations that never return stay open); non-trivial if at least 300 client operations completed and at least one leader change happened; distinct = distinct abstract trace",
		Nontrivial: either(all(ge("client-ops", 300), ge("leaders-elected", 2)), all(ge("fault:slow-state-machine", 1), ge("leader-barriers-and-reads-checked-against-applied-index", 5))),
		MinQuick:   20, MinThorough: 200,
		Counters:    []string{"porcupine-ok", "porcupine-operations", "porcupine-timeout", "client-ops", "client-ops-open", "reads-checked", "leader-reads-checked", "real-time-pairs-covered", "global-sequence-length", "leaders-elected", "transfers-succeeded"},
		Prefixes:    []string{"client-ret:", "client-op:"},
		Assumptions: stdAssumptions,
	},
}

func init() {
	properties["C05"] = propSpec{
		Level: "exploration",
		Plan: []planEntry{
			{Engine: "A", Scenario: "election", Quick: 30, Thorough: 400},
			{Engine: "A", Scenario: "general", Quick: 10, Thorough: 100},
		},
		Rule:       "seeded live-cluster runs with an election-heavy nemesis and hard crashes at the vote hooks (before persisting, after persisting, before the reply leaves); every vote reply is compared with the voter's state and its term file at that instant, every restart with what had been acknowledged; non-trivial if at least 8 votes were granted, checked against disk, and at least 2 leaders were elected after bootstrap; distinct = distinct abstract trace",
		Nontrivial: all(ge("grants-checked-against-disk", 8), ge("leaders-elected", 3)),
		MinQuick:   20, MinThorough: 200,
		Counters:    []string{"vote-requests", "votes-granted", "grants-checked-against-disk", "term-vote-persists", "crashes", "crash-restarts", "graceful-restarts", "elections", "leaders-elected", "rpcs"},
		Prefixes:    []string{"votes-refused:", "crash@", "syscall-monitor:"},
		Assumptions: stdAssumptions,
	}
	properties["C06"] = propSpec{
		Level: "exploration",
		Plan: []planEntry{
			{Engine: "A", Scenario: "member", Quick: 24, Thorough: 300},
			{Engine: "A", Scenario: "general", Quick: 12, Thorough: 150},
			{Engine: "A", Scenario: "load", Quick: 6, Thorough: 60},
		},
		Rule: "seeded live-cluster runs through membership changes (1->2->3 voters and back, non-voters present, leader demoting / removing itself) with partitions, stalls and crashes; at every leader commit advance the voters of its latest configuration holding the entry inside their durable frontier (flush events) are counted; non-trivial if at least 100 commit advances were checked under at least 2 different voter-set sizes; distinct = distinct abstract trace",
		Nontrivial: func(st map[string]int64) bool {
			sizes := 0
			for k, v := range st {
				if len(k) > 25 && k[:25] == "durability-checks-voters=" && v > 0 {
					sizes++
				}
			}
			return st["durability-checks"] >= 100 && sizes >= 2
		},
		MinQuick: 16, MinThorough: 150,
		Counters:    []string{"durability-checks", "durability-exact-majority", "commits-by-non-voting-leader", "flushes", "append-acks", "acks-beyond-durable-frontier", "config-entries", "leader-self-demotions-committed", "crashes"},
		Prefixes:    []string{"durability-checks-voters="},
		Assumptions: stdAssumptions,
	}
	properties["C08"] = propSpec{
		Level: "exploration",
		Plan: []planEntry{
			{Engine: "A", Scenario: "member", Quick: 30, Thorough: 400},
			{Engine: "A", Scenario: "everything", Quick: 8, Thorough: 100},
			{Engine: "A", Scenario: "uncommitted-config", Params: "seg=1024", Quick: 6, Thorough: 60},
			{Engine: "A", Scenario: "uncommitted-config", Params: "seg=1024,variant=3", Quick: 10, Thorough: 100},
		},
		Rule:       "seeded live-cluster runs submitting random legal and illegal ChangeConfig requests (add non-voter +/- promote, promote, demote, remove, force-remove, several actions at once, direct flips and drops) with leader isolation / transfer / crash while actions are pending, requests that reach a leader the moment it is elected, a second request behind an uncommitted one, nodes moved to another address; directed scenario uncommitted-config (an isolated leader stores a configuration that is later truncated; variant 3: it asks for a change of voting rights, the majority changes another voter, leadership is handed back); every change of voting rights must be traceable to an action in the predecessor or a request pending on that leader; the configurations one node operates under are compared one after the other; findings of the election-safety (C01) and commit-stability (C02) rules in these runs count as violations of this property; non-trivial if at least 4 configuration entries were chained to a predecessor; distinct = distinct abstract trace",
		Nontrivial: all(ge("config-chain-links", 4)),
		Includes:   map[string]string{"C01": "config-chain-links", "C02": "config-chain-links"},
		MinQuick:   20, MinThorough: 200,
		Counters:     []string{"config-entries", "config-chain-links", "voter-changes-traced-to-a-request", "config-adoptions-compared", "config-changes", "config-commits", "leaders-elected", "truncations", "crashes", "transfers-succeeded"},
		Prefixes:     []string{"config-actions:", "admin:changeconfig:"},
		SampleTopics: []string{"config-chain"},
		Assumptions:  stdAssumptions,
	}
	properties["C10"] = propSpec{
		Level: "fault_enumeration",
		Plan: []planEntry{
			{Engine: "A", Scenario: "crashy", Quick: 36, Thorough: 400},
			{Engine: "A", Scenario: "general", Quick: 8, Thorough: 100},
			{Engine: "A", Scenario: "install-crash", Params: "seg=1024", Quick: 12, Thorough: 150},
			{Engine: "A", Scenario: "bootstrap-crash", Quick: 6, Thorough: 60},
			{Engine: "A", Scenario: "window-crash", Params: "seg=1024", Quick: 16, Thorough: 200},
			{Engine: "A", Scenario: "stale-suffix-install-crash", Params: "seg=1024", Quick: 10, Thorough: 120},
		},
		Rule:       "seeded live-cluster runs with hard crashes (cut off the network, copy the storage directory = kill -9 image, restart on the copy) armed at the storage hook points (vote before/after persist, append, segment flush phases, roll-over, truncation, compaction, snapshot publish, install stored / log handled, log reset, segment creation, reply); each restart is compared with what the node had acknowledged; a directed scenario kills a follower inside a snapshot installation (snapshot published / log handled / inside the log reset / after it) and restarts it; a second one kills the node that is being bootstrapped; non-trivial if at least 2 crash images were reopened, or one in a directed scenario; distinct = distinct abstract trace (includes the crash points)",
		Nontrivial: either(ge("crash-restarts", 2), all(ge("crash-restarts", 1), ge("directed-crash-windows", 1))),
		MinQuick:   20, MinThorough: 200,
		Counters:     []string{"crashes", "crash-restarts", "directed-crash-windows", "graceful-restarts", "wiped-restarts", "incarnations", "append-acks", "votes-granted", "snapshots-taken", "compactions", "log-resets"},
		Prefixes:     []string{"crash@", "snapshot-installs:"},
		SampleTopics: []string{"crash-restart"},
		Assumptions:  stdAssumptions,
	}
	properties["C11"] = propSpec{
		Level: "exploration",
		Plan: []planEntry{
			{Engine: "A", Scenario: "member", Quick: 48, Thorough: 450},
		},
		Rule: "seeded live-cluster runs with membership churn, timeout-now requests injected at wire level at arbitrary nodes (incl. non-voters and nodes being promoted / demoted), leader self-demotion / removal under load; directed: a follower that holds its own demotion uncommitted is told to time out now; non-trivial if at least 3 membership actions were started and at least one timeout-now was delivered, or a non-voter answered a timeout-now; distinct = distinct abstract trace",
		Nontrivial: func(st map[string]int64) bool {
			var acts, tn int64
			for k, v := range st {
				if len(k) > 15 && k[:15] == "config-actions:" {
					acts += v
				}
				if len(k) > 12 && k[:12] == "timeout-now:" {
					tn += v
				}
			}
			return (acts >= 3 && tn >= 1) || st["timeout-now:nonVoter"] >= 1
		},
		MinQuick: 14, MinThorough: 150,
		Counters:     []string{"rounds-completed", "leader-self-demotions-committed", "self-shutdowns-on-removal", "elections", "config-entries", "serve-exits-node-removed"},
		Prefixes:     []string{"config-actions:", "timeout-now:"},
		SampleTopics: []string{"promotion"},
		Assumptions:  stdAssumptions,
	}
	properties["C16"] = propSpec{
		Level: "exploration",
		Plan: []planEntry{
			{Engine: "A", Scenario: "transfer", Quick: 30, Thorough: 400},
			{Engine: "A", Scenario: "transfer-faults", Quick: 12, Thorough: 150},
			{Engine: "A", Scenario: "transfer-timeout-pending-action", Quick: 6, Thorough: 60},
		},
		Rule:       "seeded live-cluster runs issuing leadership transfers (target given / any / invalid / non-voter / lagging) with stalls, one-way cuts, connection breaks and concurrent client and membership tasks; non-trivial if at least 3 transfers chose a target; distinct = distinct abstract trace",
		Nontrivial: either(all(ge("transfer-targets-chosen", 3)), ge("pending-actions-after-failed-transfer:resumed", 1)),
		Includes:   map[string]string{"C01": "transfer-targets-chosen"},
		MinQuick:   20, MinThorough: 200,
		Counters:     []string{"transfer-targets-chosen", "transfers-succeeded", "transfers-failed", "timeout-now-delivered", "leader-appends", "leaders-elected"},
		Prefixes:     []string{"admin:transfer:", "timeout-now:", "pending-actions-after-failed-transfer:", "after-failed-transfer:"},
		SampleTopics: []string{"transfer"},
		Assumptions:  stdAssumptions,
	}
	properties["C17"] = propSpec{
		Level: "exploration",
		Plan: []planEntry{
			{Engine: "A", Scenario: "general", Quick: 16, Thorough: 200},
			{Engine: "A", Scenario: "election", Quick: 10, Thorough: 120},
			{Engine: "A", Scenario: "member", Quick: 8, Thorough: 100},
			{Engine: "A", Scenario: "transfer", Quick: 10, Thorough: 120},
			{Engine: "A", Scenario: "wiped-follower", Quick: 3, Thorough: 30},
			{Engine: "A", Scenario: "promote-idle", Quick: 8, Thorough: 100},
			{Engine: "A", Scenario: "promote-idle", Params: "gomaxprocs=1", Quick: 8, Thorough: 100},
			{Engine: "A", Scenario: "readd-removed", Quick: 6, Thorough: 60},
			{Engine: "A", Scenario: "leader-after-install", Params: "seg=1024", Quick: 6, Thorough: 60},
			{Engine: "A", Scenario: "promoted-unaware", Quick: 4, Thorough: 40},
			{Engine: "A", Scenario: "self-demotion-uncommitted", Params: "ext=2", Quick: 2, Thorough: 12},
			{Engine: "A", Scenario: "idle-nonvoter-restarted", Quick: 2, Thorough: 12},
		},
		Rule:       "restated as bounded progress: seeded fault histories (partitions, crashes, restarts, membership churn, removed nodes that keep campaigning) followed by heal; within 400 ticks (tick = heartbeat timeout / 4) one leader that every live member follows, a fresh update committed, every live member's state machine caught up, membership stable; a miss is extended 4x: still stuck = violation, late = inconclusive; plus leader stickiness on every vote request handled while a leader is known; directed: a follower whose storage was wiped comes back under the same leader (known finding, see known_findings.json); non-trivial if the run had at least one fault and reached the convergence phase; distinct = distinct abstract trace",
		Nontrivial: all(ge("faults", 1)),
		MinQuick:   20, MinThorough: 200,
		Counters:    []string{"converged", "convergence-ticks", "faults", "vote-requests-while-leader-known", "elections", "leaders-elected", "crashes"},
		Prefixes:    []string{"fault:", "bounded-election:", "bounded-catch-up:", "elections-timed-against"},
		Par:         6,
		Assumptions: append([]string{"liveness is restated as bounded progress on a logical tick clock; no finite run decides 'eventually'"}, stdAssumptions...),
	}
	properties["C19"] = propSpec{
		Level: "exploration",
		Plan: []planEntry{
			{Engine: "A", Scenario: "snapshot-vs-install", Params: "seg=1024", Quick: 8, Thorough: 80},
			{Engine: "A", Scenario: "general", Quick: 16, Thorough: 200},
			{Engine: "A", Scenario: "snapshot", Quick: 12, Thorough: 150},
			{Engine: "A", Scenario: "member", Quick: 6, Thorough: 80},
			{Engine: "A", Scenario: "uncommitted-config", Params: "seg=1024", Quick: 9, Thorough: 90},
		},
		Rule:       "directed scenario (isolated leader appends a configuration entry it never commits; heal / restart / installation) and seeded live-cluster runs; GetInfo polled on every node twice per heartbeat timeout (public API) and the same inequalities asserted on the node's own fields at every step of its main loop; non-trivial if at least 100 status reports were compared pairwise and at least 1000 steps were checked; distinct = distinct abstract trace",
		Nontrivial: either(all(ge("status-report-pairs", 100), ge("steps", 1000)), all(ge("fault:snapshot-held-after-capture", 1), ge("snapshot-installs:success", 1))),
		MinQuick:   20, MinThorough: 200,
		Counters:    []string{"status-reports", "status-report-pairs", "steps", "commit-advances", "truncations", "log-resets", "compactions", "config-changes"},
		Prefixes:    []string{"snapshot-installs:"},
		Assumptions: stdAssumptions,
	}

	properties["C13"] = propSpec{
		Level: "exploration",
		Plan: []planEntry{
			{Engine: "C", Scenario: "model", Params: "programs=250,ops=60", Quick: 8, Thorough: 120},
			{Engine: "C", Scenario: "model", Params: "programs=60,ops=60", Quick: 3, Thorough: 30, Race: true},
		},
		Rule:     "seeded operation programs on the real log package (append with sizes 0 / 1 / exact fit / fit-1 / fit+1 / beyond the segment, commit, commitN, removeLTE / removeGTE at boundary-1 / boundary / boundary+1 / below prev / above last, reset, close+reopen, views read by concurrent goroutines while the writer appends; segment sizes 1-16 KiB) compared after every operation with an in-memory reference sequence (bounds, contains, Get of every index, GetN over random cross-segment ranges, CanLTE predicted from segment file names); a program is non-trivial if its log spanned at least 2 segment files; distinct = distinct operation sequence; race builds repeat it under the race detector (implies checkptr)",
		MinQuick: 500, MinThorough: 5000,
		Prefixes:     []string{"op:"},
		Counters:     []string{"race-runs"},
		SampleTopics: []string{"program"},
		Assumptions:  []string{"the reference model is the specification: an abstract sequence with a prev index", "views are used as documented (invalidated by RemoveLTE / RemoveGTE / Close)"},
	}
	properties["C14"] = propSpec{
		Level: "fault_enumeration",
		Plan: []planEntry{
			{Engine: "C", Scenario: "crash", Params: "programs=50,ops=50", Quick: 8, Thorough: 160},
		},
		Rule:     "the same seeded operation programs; at EVERY hook point inside the log package operations (after each append, between and after the two flushes of a segment sync, after the header is lowered in removeGTE, around roll-over, after each file removal / creation in removeLTE / removeGTE / reset, after truncate / write / sync of segment creation) two kinds of crash images are built and reopened with log.Open: the kill image (files as they are) and power-loss images (content of each file at its last completed msync plus a subset of the 4 KiB pages dirtied since: all subsets up to 6 dirty pages, otherwise none / each single / all-but-one / 16 random); each image must open, hold only entries as appended (pre- or post-state of the interrupted operation) and every entry covered by the last completed commit unless removed since; a program is non-trivial if it created at least 2 segment files; distinct = distinct operation sequence",
		MinQuick: 200, MinThorough: 4000,
		Prefixes:     []string{"op:images", "point:"},
		SampleTopics: []string{"program"},
		Assumptions:  []string{"directory operations (create, remove) are durable when they return", "power loss is modelled at 4 KiB page granularity on top of the last completed msync of each file", "kill model: every write reaches the file"},
	}

	properties["C09"] = propSpec{
		Level: "exploration",
		Plan: []planEntry{
			{Engine: "A", Scenario: "snapshot", Quick: 20, Thorough: 250},
			{Engine: "A", Scenario: "stale-suffix-install", Params: "seg=1024", Quick: 8, Thorough: 80},
			{Engine: "A", Scenario: "crashy", Quick: 6, Thorough: 80},
			{Engine: "A", Scenario: "compaction-grid", Params: "seg=1024", Quick: 16, Thorough: 300},
			{Engine: "A", Scenario: "install-crash", Params: "seg=1024", Quick: 12, Thorough: 150},
			{Engine: "A", Scenario: "snapshot-vs-install", Params: "seg=1024", Quick: 12, Thorough: 120},
			{Engine: "A", Scenario: "leader-after-install", Params: "seg=1024", Quick: 8, Thorough: 80},
		},
		Rule: "seeded live-cluster runs with snapshots on leaders and followers, compaction over 1-4 KiB segments, lagging / isolated followers brought back by entries or by snapshot installation, restarts and crashes; directed: stale suffix covering the snapshot index; every snapshot file is read back (label + id list) when it is published or stored and compared with the global applied sequence and the committed log; unmapped segments are quarantined (PROT_NONE) so that a read through a stale view faults; non-trivial if at least one snapshot file was checked and at least one compaction or installation happened; distinct = distinct abstract trace",
		Nontrivial: func(st map[string]int64) bool {
			return st["snapshot-files-seen"] >= 1 && (st["compactions"] >= 1 || st["log-resets"] >= 1)
		},
		MinQuick: 16, MinThorough: 150,
		Counters:     []string{"snapshot-files-seen", "snapshot-contents-checked-against-ledger", "labels-checked", "compactions", "log-resets", "fsm-restores", "restores-checked-against-ledger", "snapshots-taken", "crash-restarts", "graceful-restarts", "converged"},
		Prefixes:     []string{"snapshot-installs:"},
		SampleTopics: []string{"snapshot"},
		Assumptions:  stdAssumptions,
	}

	properties["C18"] = propSpec{
		Level: "exploration",
		Plan: []planEntry{
			{Engine: "D", Scenario: "codec", Params: "values=40000,dirs=40", Quick: 6, Thorough: 120},
		},
		Rule:     "boundary-biased generated values (0, 1, 2^31, 2^32-1, 2^63-1, 2^63, 2^64-1, random; empty / 1-byte / 70 KB byte strings; 0-9 nodes per configuration; every result and error kind) for every codec: log entry, the five requests and responses, Node, Config, snapshot label, Info, Replication, admin task responses (results, NotLeaderError with hint and lost flag, InProgressError by kind, every exported sentinel / not-ready error by equality); decode(encode(x) ++ tail) must return x and leave exactly tail, and every proper prefix (all of the first 48 bytes, 24 random cuts, the last 12) must fail; plus SetIdentity + New and granted vote + restart for 64-bit values incl. >= 2^63; a value is non-trivial if it is not the all-zero value; distinct = distinct encoding, counted per worker run (runs use different seeds)",
		MinQuick: 50000, MinThorough: 1000000,
		Counters:    []string{"bursts-cut-in-the-middle", "remote-status-reports-with-followers"},
		Prefixes:    []string{"op:codec:", "op:truncated", "remote-status-reports:", "remote-errors:", "wire-reply-error:"},
		Assumptions: []string{"exported wrappers in verif_codec_on.go call the unexported codec functions without altering values", "pipelined stream framing is additionally exercised end to end by the live-cluster and wire-level engines"},
	}

	properties["C12"] = propSpec{
		Level: "exploration",
		Plan: []planEntry{
			{Engine: "A", Scenario: "snap-config-race", Params: "seg=1024", Quick: 14, Thorough: 160},
			{Engine: "A", Scenario: "snapshot", Quick: 10, Thorough: 120},
			{Engine: "A", Scenario: "member", Quick: 8, Thorough: 100},
			{Engine: "A", Scenario: "stale-suffix-install", Params: "seg=1024", Quick: 4, Thorough: 40},
			{Engine: "A", Scenario: "uncommitted-config", Params: "seg=1024", Quick: 9, Thorough: 90},
		},
		Rule:       "directed scenarios: isolated leader with an uncommitted configuration entry (snapshot + restart, or brought back by installation with its log discarded); TakeSnapshot requested on a leader or follower and held at the start of its goroutine while a membership change commits and is applied, then released, followed by compaction, restart and catch-up of another node; plus seeded snapshot / membership runs; every snapshot file is read back when published or stored and its label compared with the committed log (index, term, newest committed configuration at or below the index; a newer membership must be a committed one); after every restart the membership is compared with log suffix / label; non-trivial if at least one label was checked against a committed configuration entry other than the bootstrap one; distinct = distinct abstract trace",
		Nontrivial: all(ge("label-memberships-checked", 1), ge("config-entries", 4)),
		MinQuick:   16, MinThorough: 150,
		Counters:     []string{"snapshot-files-seen", "labels-checked", "label-memberships-checked", "config-entries", "config-commits", "fsm-restores", "graceful-restarts", "crash-restarts", "compactions"},
		Prefixes:     []string{"snapshot-installs:"},
		SampleTopics: []string{"snapshot"},
		Assumptions:  stdAssumptions,
	}
	properties["C15"] = propSpec{
		Level: "exploration",
		Plan: []planEntry{
			{Engine: "A", Scenario: "everything", Quick: 16, Thorough: 200},
			{Engine: "A", Scenario: "everything", Quick: 8, Thorough: 100, Race: true},
			{Engine: "A", Scenario: "double-install", Params: "seg=1024", Quick: 4, Thorough: 40, Race: true},
			{Engine: "A", Scenario: "double-install", Params: "seg=1024", Quick: 4, Thorough: 40},
			{Engine: "A", Scenario: "snapshot-vs-install", Params: "seg=1024", Quick: 6, Thorough: 60},
			{Engine: "A", Scenario: "slow-fsm-install", Params: "seg=1024", Quick: 6, Thorough: 60},
			{Engine: "A", Scenario: "open-vs-retention", Params: "seg=1024,retain=1", Quick: 6, Thorough: 60},
			{Engine: "A", Scenario: "late-install-response", Params: "seg=1024", Quick: 6, Thorough: 60},
			{Engine: "A", Scenario: "compact-after-remove", Params: "seg=1024,hb=150", Quick: 6, Thorough: 60},
			{Engine: "A", Scenario: "lifecycle", Quick: 3, Thorough: 20},
			{Engine: "A", Scenario: "bootstrap-after-vote", Quick: 2, Thorough: 12},
			{Engine: "A", Scenario: "deposed-leader-truncates", Params: "seg=1024,qw=60", Quick: 6, Thorough: 60},
			{Engine: "A", Scenario: "deposed-leader-truncates", Params: "seg=1024,qw=60", Quick: 4, Thorough: 40, Race: true},
			{Engine: "A", Scenario: "snapshot-vs-install", Params: "seg=1024", Quick: 3, Thorough: 30, Race: true},
			{Engine: "A", Scenario: "snapshot", Quick: 4, Thorough: 60, Race: true},
			{Engine: "A", Scenario: "member", Quick: 4, Thorough: 60, Race: true},
		},
		Rule:       "seeded live-cluster runs mixing client tasks, admin tasks, snapshots, compactions over 1-4 KiB segments, transfers, membership changes, partitions, stalls, restarts and hard crashes, in plain and in race-detector builds (which also enable checkptr); directed: two followers behind a compaction brought back at once; unmapped segments are quarantined so stale reads fault; judged: child process died (panic / fatal error / signal), Serve returned anything but ErrServerClosed / ErrNodeRemoved, a data race report (deduplicated by the pair of accessing functions), a submitted task not done after all nodes were shut down, Shutdown not returning; non-trivial if the run handled at least 300 client operations and 8 faults; distinct = distinct abstract trace",
		Nontrivial: all(ge("client-ops", 300), ge("faults", 4)),
		MinQuick:   20, MinThorough: 200,
		Counters:    []string{"race-runs", "client-ops", "shutdowns", "serve-exits", "serve-exits-node-removed", "faults", "crashes", "snapshots-taken", "compactions", "log-resets", "transfers-succeeded", "config-entries", "leaders-elected"},
		Prefixes:    []string{"snapshot-installs:", "admin:"},
		Par:         8,
		Assumptions: append([]string{"race detector and checkptr see only the interleavings the runs produce"}, stdAssumptions...),
	}

	properties["C20"] = propSpec{
		Level: "exploration",
		Plan: []planEntry{
			{Engine: "A", Scenario: "identity", Quick: 24, Thorough: 300},
			{Engine: "A", Scenario: "foreign-dialer", Quick: 4, Thorough: 40},
		},
		Rule:       "two live clusters with identical node ids on one in-memory network; seeded sequence of: a node's address rebound to the same node id of the other cluster / to another node of its own cluster while connections are pooled, resolvers returning addresses of other nodes or of the other cluster, a wire-level peer shaking hands under each of the 4 combinations of right / wrong cluster id x node id and then sending vote and timeout-now requests on the same connection, a second New+Serve and SetIdentity (same / other identity) on a directory being served (twice in a row, so that a rejected attempt that damages the lock shows), SetIdentity on a stopped node's directory and the identity read back; every request processed by a node is tied to the handshake of its connection; non-trivial if at least 4 handshakes were refused and at least 6 exclusivity attempts made; distinct = distinct abstract trace",
		Nontrivial: either(all(ge("handshakes-rejected", 4), ge("exclusivity-attempts", 6)), all(ge("handshakes-rejected", 4), ge("foreign-dialer:leader-elected", 1))),
		MinQuick:   12, MinThorough: 150,
		Counters:    []string{"handshakes", "handshakes-rejected", "requests-on-identified-connections", "exclusivity-attempts", "serving-periods", "faults", "leaders-elected", "committed-entries"},
		Prefixes:    []string{"exclusive:", "fault:"},
		Assumptions: stdAssumptions,
	}

	// engine B: one real node against the wire-level plausible-peer universe
	addPlan := func(prop string, pe ...planEntry) {
		sp := properties[prop]
		sp.Plan = append(sp.Plan, pe...)
		properties[prop] = sp
	}
	uni := planEntry{Engine: "B", Scenario: "universe", Params: "steps=600", Quick: 40, Thorough: 2000}
	addPlan("C02", uni)
	addPlan("C04", uni)
	addPlan("C19", uni)
	addPlan("C09", planEntry{Engine: "B", Scenario: "universe", Params: "steps=600,seg=1024", Quick: 30, Thorough: 1000})
	addPlan("C03", planEntry{Engine: "B", Scenario: "universe", Params: "steps=600", Quick: 20, Thorough: 1000})
	addPlan("C12", planEntry{Engine: "B", Scenario: "universe", Params: "steps=600,seg=1024", Quick: 20, Thorough: 1000})
	addPlan("C18", planEntry{Engine: "B", Scenario: "framing", Params: "steps=500", Quick: 24, Thorough: 1000})
	// status reports through the remote client, compared with in-process ones
	addPlan("C18", planEntry{Engine: "A", Scenario: "member", Quick: 6, Thorough: 60})
	addPlan("C18", planEntry{Engine: "A", Scenario: "general", Quick: 4, Thorough: 40})
	addPlan("C07", planEntry{Engine: "A", Scenario: "uncommitted-term-leader", Params: "qw=6", Quick: 6, Thorough: 60})
	addPlan("C12", planEntry{Engine: "A", Scenario: "install-then-own-snapshot", Params: "seg=1024", Quick: 6, Thorough: 60})
	addPlan("C17", planEntry{Engine: "A", Scenario: "transfer-target-campaigns-later", Quick: 6, Thorough: 60})
	addPlan("C16", planEntry{Engine: "A", Scenario: "transfer-target-campaigns-later", Quick: 4, Thorough: 40})
	addPlan("C09", planEntry{Engine: "A", Scenario: "snapshot-vs-install", Params: "seg=1024,retain=1", Quick: 8, Thorough: 60})
	addPlan("C03", planEntry{Engine: "A", Scenario: "restart-after-install", Params: "seg=1024", Quick: 6, Thorough: 60})
	addPlan("C02", planEntry{Engine: "A", Scenario: "restart-after-install", Params: "seg=1024", Quick: 4, Thorough: 40})
	addPlan("C10", planEntry{Engine: "A", Scenario: "restart-after-install", Params: "seg=1024", Quick: 4, Thorough: 40})
	addPlan("C15", planEntry{Engine: "A", Scenario: "grown-cluster", Params: "seg=1024", Quick: 6, Thorough: 60})
	addPlan("C09", planEntry{Engine: "A", Scenario: "grown-cluster", Params: "seg=1024", Quick: 4, Thorough: 40})
	addPlan("C15", planEntry{Engine: "A", Scenario: "transfer-target-campaigns-later", Quick: 4, Thorough: 40})
	// under strace: the order of renames of the term file, flushes of its
	// directory and replies (stracemon.go)
	addPlan("C05", planEntry{Engine: "B", Scenario: "votegrid", Params: "shard=0,shards=24", Quick: 1, Thorough: 2, Strace: true, Watchdog: 600e9})
	addPlan("C05", planEntry{Engine: "A", Scenario: "election", Params: "steps=8", Quick: 1, Thorough: 3, Strace: true, Watchdog: 600e9})
	addPlan("C09", planEntry{Engine: "A", Scenario: "install-crash", Params: "seg=1024", Quick: 8, Thorough: 80})
	addPlan("C15", planEntry{Engine: "A", Scenario: "install-crash", Params: "seg=1024", Quick: 8, Thorough: 80})
	addPlan("C01", planEntry{Engine: "A", Scenario: "late-vote-results", Quick: 6, Thorough: 60})
	addPlan("C11", planEntry{Engine: "A", Scenario: "late-vote-results", Quick: 4, Thorough: 40})
	addPlan("C11", planEntry{Engine: "A", Scenario: "uncommitted-demotion-timeout-now", Quick: 4, Thorough: 40})
	addPlan("C03", planEntry{Engine: "A", Scenario: "slow-fsm", Quick: 6, Thorough: 60})
	addPlan("C09", planEntry{Engine: "A", Scenario: "slow-fsm", Quick: 4, Thorough: 40})
	addPlan("C02", planEntry{Engine: "A", Scenario: "grown-cluster", Quick: 6, Thorough: 60})
	addPlan("C06", planEntry{Engine: "A", Scenario: "grown-cluster", Quick: 4, Thorough: 40})
	addPlan("C08", planEntry{Engine: "A", Scenario: "grown-cluster", Quick: 4, Thorough: 40})
	addPlan("C08", planEntry{Engine: "A", Scenario: "two-actions-one-request", Quick: 4, Thorough: 40})
	// timers with the semantics of a main module below go 1.23 (see worker main)
	addPlan("C15", planEntry{Engine: "A", Scenario: "general", Params: "oldtimers=1", Quick: 6, Thorough: 60})
	addPlan("C15", planEntry{Engine: "A", Scenario: "election", Params: "oldtimers=1", Quick: 6, Thorough: 60})
	addPlan("C17", planEntry{Engine: "A", Scenario: "election", Params: "oldtimers=1", Quick: 6, Thorough: 60})
	addPlan("C17", planEntry{Engine: "A", Scenario: "member", Params: "oldtimers=1", Quick: 4, Thorough: 40})
	addPlan("C17", planEntry{Engine: "A", Scenario: "slow-fsm-install", Params: "seg=1024,oldtimers=1", Quick: 6, Thorough: 60})
	addPlan("C16", planEntry{Engine: "A", Scenario: "transfer", Params: "oldtimers=1", Quick: 6, Thorough: 60})
	addPlan("C01", planEntry{Engine: "A", Scenario: "election", Params: "oldtimers=1", Quick: 6, Thorough: 60})
	addPlan("C10", planEntry{Engine: "B", Scenario: "crashenum", Params: "steps=110,passes=90", Quick: 5, Thorough: 60, Watchdog: 300e9})
	for i := 0; i < 8; i++ {
		addPlan("C05", planEntry{Engine: "B", Scenario: "votegrid", Params: fmt.Sprintf("shard=%d,shards=8", i), Quick: 1, Thorough: 3, Watchdog: 300e9})
	}
	sp := properties["C05"]
	sp.Level = "fault_enumeration"
	sp.Rule = "engine B vote grid, enumerated completely: voter log (3 shapes) x vote already cast in the term (none / A / B) x leader known (none / A / B) x request term (<, =, >, 2^63+1) x candidate (A / B) x candidate log (older term longer, same term shorter, equal, same term longer, newer term) x transfer flag = 2160 cases, and 540 more in which the request's term was adopted beforehand from a leader that made itself known and went away (implausible ones are generated but not sent), each followed by a second candidate in the same term, a restart and both candidates again; a seeded sixth of the cases is killed at one of the vote hooks (before persisting, after persisting, before the reply leaves) and reopened; a twenty-fourth of the grid and one live election run are executed under strace, and the trace (renames of the term file, flushes of its directory, writes of the event log, in the kernel's order) is checked: when a node's reply record is written no rename of its term file is waiting for the directory flush that makes it durable; plus " + sp.Rule
	properties["C05"] = sp
}
