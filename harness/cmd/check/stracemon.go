package main

import (
	"bufio"
	"fmt"
	"os"
	"path/filepath"
	"regexp"
	"strings"

	"verif/oracle"
)

// System-call monitor for C05 ("a vote ... is already durable", "never
// reports a term lower than one it reported before, including across
// crashes"): the term and the vote live in the *name* of a file, so what has
// to be durable is a rename, and a rename is durable once the directory has
// been flushed. The worker runs under strace; the trace holds, in the order
// the kernel saw them, the renames, the flushes (with the path of what was
// flushed, -y) and the writes of the event log - each event is one write, and
// the record of a request handled is written before the reply leaves. Rule:
// when a node's "rpc" record is written, no rename of a *.term file in that
// node's storage directory is still waiting for a flush of that directory.

var (
	reStraceLine = regexp.MustCompile(`^(\d+)\s+(.*)$`)
	reRename     = regexp.MustCompile(`^rename(?:at2?)?\((?:AT_FDCWD[^,]*, )?"([^"]*)", (?:AT_FDCWD[^,]*, )?"([^"]*)"[^)]*\)\s+= 0`)
	reFsync      = regexp.MustCompile(`^f(?:data)?sync\(\d+<([^>]*)>\)\s+= 0`)
	reWriteEv    = regexp.MustCompile(`^write\(\d+<[^>]*events\.jsonl>, "(.*)"(?:\.\.\.)?, \d+\)\s+= \d+`)
	reField      = func(name string) *regexp.Regexp { return regexp.MustCompile(`"` + name + `":(\d+)`) }
	reCid        = reField("cid")
	reNid        = reField("nid")
	reQ          = reField("q")
	reDirField   = regexp.MustCompile(`"dir":"([^"]*)"`)
)

func analyzeStrace(path string, rep *oracle.Report) {
	f, err := os.Open(path)
	if err != nil {
		rep.Inconclusive = append(rep.Inconclusive, "no system-call trace: "+err.Error())
		return
	}
	defer f.Close()
	pending := map[string]string{}    // pid -> unfinished call
	dirty := map[string]string{}      // directory -> newest *.term name renamed into it and not flushed
	nodeDir := map[[2]string]string{} // (cid, nid) -> current storage directory
	var renames, flushes, replies int64
	sc := bufio.NewScanner(f)
	sc.Buffer(make([]byte, 1<<20), 1<<22)
	for sc.Scan() {
		m := reStraceLine.FindStringSubmatch(sc.Text())
		if m == nil {
			continue
		}
		pid, call := m[1], m[2]
		if i := strings.Index(call, " <unfinished ...>"); i >= 0 {
			pending[pid] = call[:i]
			continue
		}
		if strings.HasPrefix(call, "<... ") {
			if j := strings.Index(call, "resumed>"); j >= 0 {
				call = pending[pid] + call[j+len("resumed>"):]
				delete(pending, pid)
			}
		}
		switch {
		case strings.HasPrefix(call, "rename"):
			if r := reRename.FindStringSubmatch(call); r != nil && strings.HasSuffix(r[2], ".term") {
				renames++
				dirty[filepath.Dir(r[2])] = filepath.Base(r[2])
			}
		case strings.HasPrefix(call, "fsync"), strings.HasPrefix(call, "fdatasync"):
			if r := reFsync.FindStringSubmatch(call); r != nil {
				if _, ok := dirty[r[1]]; ok {
					flushes++
					delete(dirty, r[1])
				}
			}
		case strings.HasPrefix(call, "write"):
			r := reWriteEv.FindStringSubmatch(call)
			if r == nil {
				continue
			}
			line := strings.ReplaceAll(r[1], `\"`, `"`)
			cid, nid := reCid.FindStringSubmatch(line), reNid.FindStringSubmatch(line)
			if cid == nil || nid == nil {
				continue
			}
			key := [2]string{cid[1], nid[1]}
			switch {
			case strings.Contains(line, `"k":"node-dir"`):
				if d := reDirField.FindStringSubmatch(line); d != nil {
					nodeDir[key] = d[1]
				}
			case strings.Contains(line, `"k":"rpc"`):
				replies++
				d := nodeDir[key]
				if name, bad := dirty[d]; bad && d != "" {
					q := "?"
					if x := reQ.FindStringSubmatch(line); x != nil {
						q = x[1]
					}
					rep.Findings = append(rep.Findings, oracle.Finding{Prop: "C05", Rule: "reply-before-the-term-file-is-durable", Sig: "reply-before-the-term-file-is-durable",
						Msg: fmt.Sprintf("node %s/%s answers a request (event %s) while its term file has been renamed to %s and the directory %s has not been flushed since: after a power failure the node comes back under the old name, with an older term or without the vote it has just reported", cid[1], nid[1], q, name, d)})
					delete(dirty, d) // one finding per rename
				}
			}
		}
	}
	rep.Stats["syscall-monitor:term-file-renames"] += renames
	rep.Stats["syscall-monitor:directory-flushes-after-a-rename"] += flushes
	rep.Stats["syscall-monitor:replies-checked"] += replies
	if renames == 0 || replies == 0 {
		rep.Inconclusive = append(rep.Inconclusive, fmt.Sprintf("system-call trace saw %d renames of term files and %d replies", renames, replies))
	}
}
