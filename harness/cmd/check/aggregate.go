package main

import (
	"encoding/json"
	"fmt"
	"os"
	"path/filepath"
	"sort"
	"strings"

	"verif/oracle"
)

// propSpec describes the check of one property.
type propSpec struct {
	Plan         []planEntry
	Level        string // evidence level
	Rule         string // how cases are generated, what makes a run non-trivial / distinct
	Nontrivial   func(st map[string]int64) bool
	MinQuick     int
	MinThorough  int
	Counters     []string // stats reported (summed over runs) in the evidence
	Prefixes     []string // stat prefixes reported
	SampleTopics []string
	Par          int
	Assumptions  []string
	// Includes: findings of another property count for this one in runs in
	// which the named statistic is positive (the statement of this property
	// includes that one under its own workload, e.g. "election safety
	// continues to hold throughout membership changes")
	Includes map[string]string
}

func (p propSpec) minNontrivial(tier string) int {
	if tier == "thorough" {
		return p.MinThorough
	}
	return p.MinQuick
}

type violation struct {
	f   oracle.Finding
	run *runResult
}

type aggregate struct {
	prop string
	spec propSpec

	runs              int
	cases             int
	extraDistinct     int // distinct cases counted inside the workers (different seeds)
	events            int
	inconclusive      int
	nontriv           int
	shapes            map[string]int
	stats             map[string]int64
	perScenario       map[string]int
	samples           []interface{}
	sampleTopics      map[string][]string
	violations        []violation
	others            map[string]int // other_property_observations
	inconclusiveWhy   map[string]int
	knownHits         int
	unknownViolations int
	sigSeen           map[string]bool
}

func newAggregate(prop string, spec propSpec) *aggregate {
	return &aggregate{prop: prop, spec: spec, shapes: map[string]int{}, stats: map[string]int64{}, perScenario: map[string]int{},
		sampleTopics: map[string][]string{}, others: map[string]int{}, inconclusiveWhy: map[string]int{}, sigSeen: map[string]bool{}}
}

func (a *aggregate) nontrivial() int { return a.nontriv }

func (a *aggregate) add(r *runResult) {
	a.runs++
	a.events += r.events
	name := r.spec.pe.Engine + ":" + r.spec.pe.Scenario
	if r.spec.pe.Race {
		name += ":race"
	}
	a.perScenario[name]++
	for k, v := range r.rep.Stats {
		a.stats[k] += v
	}
	if len(r.rep.Inconclusive) > 0 {
		if os.Getenv("VERIF_DEBUG") != "" {
			fmt.Printf("DEBUG inconclusive run=%s: %v\n", r.spec.name, r.rep.Inconclusive)
		}
		a.inconclusive++
		for _, w := range r.rep.Inconclusive {
			a.inconclusiveWhy[stripDigits(firstN(w, 60))]++
		}
	}
	if r.rep.CaseCount > 0 {
		// a run of many cases (programs, sequences, values)
		a.cases += r.rep.CaseCount
		for _, h := range r.rep.Cases {
			a.shapes[h]++
		}
		a.nontriv += len(r.rep.Cases) + r.rep.DistinctCases
		a.extraDistinct += r.rep.DistinctCases
		if len(a.samples) < 2 {
			a.samples = append(a.samples, map[string]interface{}{"run": r.spec.name, "cases": r.rep.CaseCount, "nontrivial_cases": len(r.rep.Cases), "wall_ms": r.wallMs})
		}
	}
	nt := (len(r.rep.Inconclusive) == 0 || r.completed) && r.rep.CaseCount == 0
	if nt && a.spec.Nontrivial != nil {
		nt = a.spec.Nontrivial(r.rep.Stats)
	}
	if nt {
		a.nontriv++
		h := shapeHash(append([]string{name}, r.rep.Shape...))
		a.shapes[h]++
		if len(a.samples) < 3 && a.shapes[h] == 1 {
			sh := r.rep.Shape
			if len(sh) > 40 {
				sh = sh[:40]
			}
			a.samples = append(a.samples, map[string]interface{}{
				"run": r.spec.name, "events": r.events, "abstract_trace": strings.Join(sh, " "), "wall_ms": r.wallMs,
			})
		}
	}
	for _, t := range a.spec.SampleTopics {
		for _, s := range r.rep.Samples[t] {
			if len(a.sampleTopics[t]) < 3 {
				a.sampleTopics[t] = append(a.sampleTopics[t], s)
			}
		}
	}
	for _, f := range r.rep.Findings {
		if st, ok := a.spec.Includes[f.Prop]; ok && r.rep.Stats[st] > 0 {
			f.Rule = f.Prop + "/" + f.Rule
			f.Sig = f.Prop + "/" + f.Sig
			f.Prop = a.prop
		}
		if f.Prop == a.prop {
			key := f.Sig
			if a.sigSeen[key] {
				continue // one witness per signature
			}
			a.sigSeen[key] = true
			a.violations = append(a.violations, violation{f, r})
		} else {
			a.others[f.Prop+":"+f.Rule]++
			if os.Getenv("VERIF_DEBUG") != "" && a.others[f.Prop+":"+f.Rule] <= 2 {
				fmt.Printf("DEBUG other %s %s [%s] run=%s seq=%d: %s\n", f.Prop, f.Rule, f.Sig, r.spec.name, f.Seq, firstN(f.Msg, 300))
			}
		}
	}
}

func firstN(s string, n int) string {
	if len(s) > n {
		return s[:n]
	}
	return s
}

func (a *aggregate) evidence(tier string, seed int64, wall float64) map[string]interface{} {
	cov := map[string]interface{}{
		"evaluations":         a.runs + a.cases,
		"runs":                a.runs,
		"distinct_nontrivial": len(a.shapes) + a.extraDistinct,
		"nontrivial_runs":     a.nontriv,
		"rule":                a.spec.Rule,
		"events_observed":     a.events,
		"inconclusive_runs":   a.inconclusive,
		"runs_per_scenario":   a.perScenario,
	}
	samples := append([]interface{}{}, a.samples...)
	for _, t := range a.spec.SampleTopics {
		for _, s := range a.sampleTopics[t] {
			samples = append(samples, map[string]string{t: s})
		}
	}
	if len(samples) == 0 {
		samples = append(samples, "no non-trivial run")
	}
	cov["samples"] = samples
	obs := map[string]int64{}
	for _, k := range a.spec.Counters {
		obs[k] = a.stats[k]
	}
	for k, v := range a.stats {
		for _, p := range a.spec.Prefixes {
			if strings.HasPrefix(k, p) {
				obs[k] = v
			}
		}
	}
	cov["observed"] = obs
	if len(a.others) > 0 {
		cov["other_property_observations"] = a.others
	}
	if len(a.inconclusiveWhy) > 0 {
		cov["inconclusive_reasons"] = a.inconclusiveWhy
	}
	var vs []map[string]interface{}
	for _, v := range a.violations {
		vs = append(vs, map[string]interface{}{"rule": v.f.Rule, "signature": v.f.Sig, "run": v.run.spec.name, "msg": firstN(v.f.Msg, 400)})
	}
	if len(vs) > 0 {
		cov["violations_detail"] = vs
	}
	cov["known_finding_hits"] = a.knownHits
	return map[string]interface{}{
		"property_id": a.prop,
		"tier":        tier,
		"seed":        seed,
		"level":       a.spec.Level,
		"coverage":    cov,
		"assumptions": a.spec.Assumptions,
		"wall_s":      wall,
		"violations":  a.unknownViolations,
	}
}

// known findings -----------------------------------------------------------------

type knownFinding struct {
	Property  string `json:"property"`
	Status    string `json:"status"` // known | fixed
	Signature string `json:"signature"`
	What      string `json:"what"`
	Commit    string `json:"commit,omitempty"`
}

type knownFile struct {
	Findings []knownFinding `json:"findings"`
}

func loadKnown() *knownFile {
	k := &knownFile{}
	b, err := os.ReadFile(filepath.Join(verifDir, "known_findings.json"))
	if err != nil {
		return k
	}
	if err := json.Unmarshal(b, k); err != nil {
		fmt.Fprintf(os.Stderr, "check: known_findings.json: %v\n", err)
	}
	return k
}

func (k *knownFile) match(prop, sig string) *knownFinding {
	for i := range k.Findings {
		f := &k.Findings[i]
		if f.Status == "known" && f.Property == prop && f.Signature == sig {
			return f
		}
	}
	return nil
}

func sortedKeys(m map[string]int64) []string {
	var ks []string
	for k := range m {
		ks = append(ks, k)
	}
	sort.Strings(ks)
	return ks
}
