// Command check is the driver: it rebuilds the worker from /repo's working
// tree, runs seeded executions in child processes, runs the oracles over the
// recorded event logs and writes /verif/evidence/<id>.json.
//
//	check <property-id> [--tier quick|thorough] [--replay <dir>]
//
// exit 0: property held on everything explored; exit 1 + "VIOLATION ..." line:
// violation found; exit 2: the check could not run (build failure, too few
// non-trivial runs) - never a verdict.
package main

import (
	"flag"
	"fmt"
	"os"
	"path/filepath"
	"strconv"
	"strings"
)

var (
	verifDir = "/verif"
	repoDir  = "/repo"
)

func main() {
	if len(os.Args) < 2 {
		fmt.Fprintln(os.Stderr, "usage: check <property-id> [--tier quick|thorough] [--replay dir]")
		os.Exit(2)
	}
	prop := strings.ToUpper(os.Args[1])
	fs := flag.NewFlagSet("check", flag.ExitOnError)
	tier := fs.String("tier", os.Getenv("VERIF_TIER"), "quick|thorough")
	replay := fs.String("replay", "", "re-run the oracles on a saved run directory")
	keep := fs.Bool("keep", false, "keep all run directories")
	only := fs.String("only", "", "run only plan entries whose scenario contains this string")
	runsOverride := fs.Int("runs", 0, "override the number of runs per plan entry")
	par := fs.Int("par", 0, "parallel children")
	_ = fs.Parse(os.Args[2:])
	if *tier == "" {
		*tier = "quick"
	}
	if v := os.Getenv("VERIF_DIR"); v != "" {
		verifDir = v
	}
	if v := os.Getenv("VERIF_REPO"); v != "" {
		repoDir = v
	}
	seed := int64(1)
	if s := os.Getenv("VERIF_SEED"); s != "" {
		if v, err := strconv.ParseInt(s, 10, 64); err == nil {
			seed = v
		}
	}
	if *replay != "" {
		os.Exit(doReplay(prop, *replay))
	}
	partialRun = *only != "" || *runsOverride > 0
	d := &driver{prop: prop, tier: *tier, seed: seed, keep: *keep, only: *only, runsOverride: *runsOverride, par: *par}
	os.Exit(d.run())
}

func witnessDir(prop string) string {
	if v := os.Getenv("VERIF_WITNESS_DIR"); v != "" {
		return filepath.Join(v, prop)
	}
	return filepath.Join(verifDir, "witness", prop)
}

// evidenceDir is /verif/evidence unless overridden (seed tests must not
// overwrite the evidence of the unchanged tree).
func evidenceDir() string {
	if v := os.Getenv("VERIF_EVIDENCE_DIR"); v != "" {
		return v
	}
	if partialRun {
		// --only / --runs are debugging aids: what they cover is not the
		// registered check's coverage
		return filepath.Join(verifDir, ".build", "evidence-partial")
	}
	return filepath.Join(verifDir, "evidence")
}

var partialRun bool
