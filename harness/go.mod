module verif

go 1.23

require (
	github.com/anishathalye/porcupine v1.3.0
	github.com/santhosh-tekuri/raft v0.0.0
)

require golang.org/x/sys v0.0.0-20191010194322-b09406accb47 // indirect

replace github.com/santhosh-tekuri/raft => /repo
