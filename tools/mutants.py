#!/usr/bin/env python3
"""Monitor self-test: applies one small break at a time to /repo (working tree
only, never committed), runs the quick check of the property it should break
with evidence/witness redirected to /tmp, and reverts. Usage:
   mutants.py [name ...]     (default: all)
Prints one line per mutant: CAUGHT / MISSED."""
import subprocess, sys, os, json

M = [
 # name, file, old, new, property to run
 ("m01-ignore-votedFor", "rpc.go", "	if votedFor != 0 {\n		if votedFor == req.src {", "	if votedFor != 0 && false {\n		if votedFor == req.src {", "C05"),
 ("m02-no-persist-vote", "rpc.go", "	defer func() {\n		r.setVotedFor(term, votedFor)\n	}()", "	defer func() {\n		if term != r.term {\n			r.setVotedFor(term, votedFor)\n		}\n	}()", "C05"),
 ("m03-quorum-minus-one", "candidate.go", "	c.votesNeeded = c.configs.Latest.quorum()", "	c.votesNeeded = c.configs.Latest.quorum() - 1\n	if c.votesNeeded < 1 {\n		c.votesNeeded = 1\n	}", "C01"),
 ("m05-no-leader-stickiness", "rpc.go", "	if !req.transfer && r.leader != 0 && req.src != r.leader {\n		return leaderKnown, nil\n	}", "", "C17"),
 ("m06-no-uptodate-check", "rpc.go", "	if r.lastLogTerm > req.lastLogTerm || (r.lastLogTerm == req.lastLogTerm && r.lastLogIndex > req.lastLogIndex) {\n		return logNotUptodate, nil\n	}", "", "C02"),
 ("m07-commit-old-term", "leader.go", "	if majorityMatchIndex > l.commitIndex && majorityMatchIndex >= l.startIndex {", "	if majorityMatchIndex > l.commitIndex {", "C02"),
 ("m08-follower-commit-any-term", "rpc.go", "		term == req.term && // don't commit any entry, until leader has committed an entry with his term\n", "", "C02"),
 ("m09-majority-off-by-one", "leader.go", "	quorum := i/2 + 1\n	return matched[quorum-1]", "	quorum := (i + 1) / 2\n	if quorum < 1 {\n		quorum = 1\n	}\n	return matched[quorum-1]", "C06"),
 ("m10-skip-prev-term-check", "rpc.go", "		if req.prevLogTerm != prevLogTerm {", "		if req.prevLogTerm != prevLogTerm && false {", "C04"),
 ("m12-no-flush-before-reply", "rpc.go", "				r.storage.commitLog(r.lastLogIndex)\n				if r.canCommit(req, index, term) {", "				if r.canCommit(req, index, term) {", "C06"),
 ("m13-leader-no-flush-at-commit", "config.go", "	l.storage.commitLog(index)\n	commitReady :=", "	commitReady :=", "C06"),
 ("m14-count-nonvoters", "leader.go", "		if n.Voter {\n			if n.ID == l.nid {\n				matched[i] = l.lastLogIndex", "		if n.Voter || true {\n			if n.ID == l.nid {\n				matched[i] = l.lastLogIndex", "C06"),
 ("m15-apply-nop-as-update", "fsm.go", "		if e.typ == entryUpdate {\n			fsm.Update(e.data)\n		} else if", "		if e.typ == entryUpdate || e.typ == entryNop {\n			fsm.Update(e.data)\n		} else if", "C03"),
 ("m17-reject-but-enqueue", "leader.go", "		if l.transfer.inProgress() {\n			ne.reply(InProgressError(\"transferLeadership\"))\n		} else if", "		if l.transfer.inProgress() && !ne.isLogEntry() {\n			ne.reply(InProgressError(\"transferLeadership\"))\n		} else if", "C16"),
 ("m18b-read-one-early-c15", "leader.go", "		} else if ne.index == l.commitIndex+1 && !ne.isLogEntry() {", "		} else if ne.index <= l.commitIndex+2 && !ne.isLogEntry() {", "C15"),
 ("m18-read-one-early", "leader.go", "		} else if ne.index == l.commitIndex+1 && !ne.isLogEntry() {", "		} else if ne.index <= l.commitIndex+2 && !ne.isLogEntry() {", "C07"),
 ("m19-no-voting-right-validation", "changeconfig.go", "		if n.Voter != nn.Voter {", "		if n.Voter != nn.Voter && false {", "C08"),
 ("m20-no-iscommitted-check", "changeconfig.go", "	if !l.configs.IsCommitted() {\n		t.reply(InProgressError(\"configChange\"))\n		return\n	}", "", "C08"),
 ("m25-nonvoter-campaigns", "follower.go", "	if !n.Voter {\n		return false, \"not voter\"", "	if !n.Voter && false {\n		return false, \"not voter\"", "C11"),
 ("m26-nonvoter-accepts-timeoutnow", "rpc.go", "	if !r.configs.Latest.isVoter(r.nid) {\n		return nonVoter, nil\n	}", "", "C11"),
 ("m27-promote-without-catchup", "changeconfig.go", "		if !r.finished() && status.matchIndex >= r.LastIndex {", "		if !r.finished() {", "C11"),
 ("m28-label-stale-index", "fsm.go", "	t.reply(fsmSnapResp{\n		index:  fsm.index,", "	t.reply(fsmSnapResp{\n		index:  fsm.index - 1,", "C12"),
 ("m29-getn-off-by-one", "log/log.go", "			sn := s.lastIndex() - (i - 1)", "			sn := s.lastIndex() - i", "C13"),
 ("m30-removelte-boundary", "log/log.go", "		if l.first.n > 0 && l.first.lastIndex() <= i {\n			s := l.first", "		if l.first.n > 0 && l.first.lastIndex() <= i+1 {\n			s := l.first", "C13"),
 ("m31-no-first-msync", "log/segment.go", "		if err := s.file.Sync(); err != nil {\n			return err\n		}\n		verifSegPoint(s, \"seg.sync.data\")", "		verifSegPoint(s, \"seg.sync.data\")", "C14"),
 ("m34-no-isclosed-guard", "task.go", "		if t.done != nil && !isClosed(t.done) {\n			close(t.done)\n		}", "		if t.done != nil {\n			close(t.done)\n		}", "C15"),
 ("m35-transfer-success-same-term", "leader.go", "		if l.term > l.transfer.term {\n			err = nil", "		if l.term >= l.transfer.term {\n			err = nil", "C16"),
 ("m36-transfer-target-lagging", "transfer.go", "			if repl.status.noContact.IsZero() && repl.status.matchIndex == l.lastLogIndex {\n				target = l.transfer.target", "			if repl.status.noContact.IsZero() {\n				target = l.transfer.target", "C16"),
 ("m37-never-lower-nextindex", "replication.go", "		r.nextIndex = min(r.nextIndex-1, resp.lastLogIndex+1)", "		r.nextIndex = r.nextIndex + 0", "C17"),
 ("m44-no-commit-ready-guard", "changeconfig.go", "	if l.commitIndex < l.startIndex {\n		t.reply(ErrNotCommitReady)\n		return\n	}\n	if t.newConf.Index", "	if t.newConf.Index", "C08"),
 ("m45-new-node-may-vote", "changeconfig.go", "			if n.Voter {\n				t.reply(fmt.Errorf(\"raft.changeConfig: new node %d must be nonvoter\", id))", "			if n.Voter && false {\n				t.reply(fmt.Errorf(\"raft.changeConfig: new node %d must be nonvoter\", id))", "C11"),
 ("m49-publish-half-received-snapshot", "rpc.go", "	meta, doneErr := sink.done(err)\n	if err != nil {\n		return readErr, err\n	}", "	meta, doneErr := sink.done(nil)\n	if err != nil {\n		return readErr, err\n	}", "C09"),
 ("m51-address-change-ignored", "conn.go", "	for _, n := range config.Nodes {\n		r.addrs[n.ID] = n.Addr\n	}", "	for _, n := range config.Nodes {\n		if _, ok := r.addrs[n.ID]; !ok {\n			r.addrs[n.ID] = n.Addr\n		}\n	}", "C17"),
 ("m52-older-snapshot-replaces-newer", "snapshots.go", "	if s.meta.index > s.snaps.index {", "	if s.meta.index > 0 {", "C19"),
 ("m53-shared-label-temp-file", "snapshots.go", "	file := metaFile(s.snaps.dir, s.meta.index) + \".tmp\"", "	file := filepath.Join(s.snaps.dir, \"meta.tmp\")", "C15"),
 ("m54-no-log-reset-on-open", "storage.go", "	if stale {\n		if err = s.log.Reset(s.snaps.index); err != nil {", "	if stale && false {\n		if err = s.log.Reset(s.snaps.index); err != nil {", "C10"),
 ("m55-old-removal-shuts-down-again", "config.go", "		if r.shutdownOnRemove && wasMember && r.configs.Latest.Index != r.removedAtStart {", "		if r.shutdownOnRemove && wasMember {", "C17"),
 ("m56-segment-created-under-final-name", "log/util.go", "	temp := name + \".tmp\"", "	temp := name", "C14"),
 ("m57-only-short-log-is-reset-on-open", "storage.go", "		stale = term != s.snaps.term", "		stale = term != s.snaps.term && false", "C10"),
 ("m58-restore-after-log-cleared", "rpc.go", "	r.fsm.ch <- fsmRestoreReq{r.fsmRestoredCh}\n	if err := <-r.fsmRestoredCh; err != nil {\n		return unexpectedErr, err\n	}\n\n	discardLog := true", "	defer func() { r.fsm.ch <- fsmRestoreReq{r.fsmRestoredCh} }()\n\n	discardLog := true", "C15"),
 ("m59-deposed-leader-keeps-replicating", "rpc.go", "	if wasLeader && r.ldr != nil {\n		r.ldr.release()\n	}", "	_ = wasLeader", "C15"),
 ("m60-status-points-into-live-state", "task.go", "				since := repl.status.noContact\n				unreachable = &since", "				unreachable = &repl.status.noContact", "C15"),
 ("m61-open-counts-user-late", "snapshots.go", "	s.usedMu.Lock()\n	index, _ := s.latest()\n	s.used[index]++\n	s.usedMu.Unlock()\n	snap, err := s.openAt(index)", "	index, _ := s.latest()\n	snap, err := s.openAt(index)\n	s.usedMu.Lock()\n	s.used[index]++\n	s.usedMu.Unlock()", "C15"),
 ("m62-refused-handshake-resets-timer", "rpc.go", "		return r.cid == req.cid && r.nid == req.nid && req.src == r.leader", "		return req.src == r.leader", "C20"),
 ("m63-stale-timeout-now-obeyed", "rpc.go", "		if req.term < r.term {\n			// (held up somewhere: the transfer it belongs to is over)\n			return staleTerm, nil\n		}\n", "", "C16"),
 ("m64-config-update-replaced", "leader.go", "			if u.config == nil {\n				u.config = pending.config\n			}", "			_ = pending", "C17"),
 ("m65-snapshot-send-error-ignored", "replication.go", "			if err := r.sendInstallSnapReq(c, req); err != nil {\n				return err\n			}\n			continue", "			if err := r.sendInstallSnapReq(c, req); err == nil {\n				continue\n			}", "C15"),
 ("m66-round-keeps-end-time", "changeconfig.go", "	r.Ordinal, r.Start, r.End, r.LastIndex = r.Ordinal+1, time.Now(), time.Time{}, lastIndex", "	r.Ordinal, r.Start, r.LastIndex = r.Ordinal+1, time.Now(), lastIndex", "C11"),
 ("m67-removed-replication-not-awaited", "config.go", "			<-repl.done\n", "", "C15"),
 ("m68-shutdown-waits-for-serve-only", "raft.go", "	if atomic.LoadInt32(&r.served) == 0 {\n		// never served (a Serve that comes now returns at once): there is\n		// nothing to wait for\n		return nil\n	}\n", "", "C15"),
 ("m69-listen-error-panics", "raft.go", "	lr, err := net.Listen(\"tcp\", addr)\n	if err != nil {\n		return err\n	}", "	lr, err := net.Listen(\"tcp\", addr)\n	if err != nil {\n		panic(err)\n	}", "C15"),
 ("m70-wait-stable-result-is-live", "changeconfig.go", "		t.reply(l.configs.Latest.clone()) // the caller may edit what it gets", "		t.reply(l.configs.Latest)", "C08"),
 ("m71-any-action-byte-accepted", "config.go", "	if n.Action > ForceRemove {\n		return fmt.Errorf(\"raft.Config: unknown action %d\", uint8(n.Action))\n	}\n", "", "C15"),
 ("m72-bootstrap-sets-term-one", "storage.go", "	if s.term < 1 {\n		s.setTerm(1)\n	}", "	s.setTerm(1)", "C15"),
 ("m73-timer-only-for-electable", "follower.go", "		f.electionAborted = false\n	}\n	// a node that cannot start an election needs the timer too:\n	// its expiry is what makes the node forget a leader that has\n	// gone silent, without which it refuses every vote request\n	f.timer.reset(f.rtime.duration(f.hbTimeout))", "		f.electionAborted = false\n		f.timer.reset(f.rtime.duration(f.hbTimeout))\n	}", "C17"),
 ("m74-new-ignores-the-lock", "raft.go", "	if _, err := os.Lstat(filepath.Join(storageDir, \"lock\")); err == nil {\n		return nil, ErrLockExists\n	}\n", "	if _, err := os.Lstat(filepath.Join(storageDir, \"lock\")); err == nil && false {\n		return nil, ErrLockExists\n	}\n", "C20"),
 ("m75-reset-removes-oldest-first", "log/log.go", "	for l.last != nil {\n		s := l.last\n		if err := s.closeAndRemove(); err != nil {\n			return err\n		}\n		verifPoint(l.dir, \"log.reset.each\")\n		l.last = s.prev\n		if l.last != nil {\n			disconnect(l.last, s)\n		}\n	}\n	l.first = nil\n", "	for l.first != nil {\n		if err := l.first.closeAndRemove(); err != nil {\n			return err\n		}\n		verifPoint(l.dir, \"log.reset.each\")\n		l.first = l.first.next\n	}\n", "C10"),
 ("m38-swap-fields", "messages.go", "	if req.lastLogIndex, err = readUint64(r); err != nil {\n		return err\n	}\n	if req.lastLogTerm, err = readUint64(r); err != nil {", "	if req.lastLogTerm, err = readUint64(r); err != nil {\n		return err\n	}\n	if req.lastLogIndex, err = readUint64(r); err != nil {", "C18"),
 ("m40-commit-regress", "rpc.go", "		term == req.term && // don't commit any entry, until leader has committed an entry with his term\n		index > r.commitIndex // haven't we committed yet", "		term == req.term // don't commit any entry, until leader has committed an entry with his term", "C19"),
 ("m41-identity-and", "rpc.go", "		if r.cid != req.cid || r.nid != req.nid {", "		if r.cid != req.cid && r.nid != req.nid {", "C20"),
 ("m42-dialer-ignores-result", "conn.go", "	if err != nil || resp.result != success {", "	if err != nil {", "C20"),
 ("m43b-removegte-wrong-index-c15", "rpc.go", "			r.storage.removeGTE(ne.index, prevTerm)\n			if ne.index <= r.configs.Latest.Index {", "			_ = prevTerm\n			r.storage.removeGTE(ne.index+1, me.term)\n			if ne.index <= r.configs.Latest.Index {", "C15"),
 ("m19b-no-voting-right-validation-c11", "changeconfig.go", "		if n.Voter != nn.Voter {", "		if n.Voter != nn.Voter && false {", "C11"),
 ("m43-removegte-wrong-index", "rpc.go", "			r.storage.removeGTE(ne.index, prevTerm)\n			if ne.index <= r.configs.Latest.Index {", "			_ = prevTerm\n			r.storage.removeGTE(ne.index+1, me.term)\n			if ne.index <= r.configs.Latest.Index {", "C04"),
 ("m44-restore-keeps-index", "fsm.go", "	fsm.index, fsm.term, fsm.config = snap.meta.index, snap.meta.term, snap.meta.config", "	fsm.term, fsm.config = snap.meta.term, snap.meta.config", "C09"),
]

def run(cmd, **kw):
    return subprocess.run(cmd, shell=True, capture_output=True, text=True, **kw)

def main():
    names = sys.argv[1:]
    wt = "/tmp/mutants-wt.%d" % os.getpid()
    if run("git -C /repo worktree add -q --detach %s HEAD" % wt).returncode != 0:
        print("cannot create worktree"); sys.exit(2)
    try:
        for name, f, old, new, prop in M:
            if names and name not in names: continue
            path = wt + "/" + f
            s = open(path).read()
            if s.count(old) != 1:
                print(f"{name}: SKIP (pattern found {s.count(old)} times)"); continue
            open(path, "w").write(s.replace(old, new))
            b = run("cd %s && GOFLAGS=-mod=mod GOPROXY=off GOSUMDB=off GOTOOLCHAIN=local go build ./... 2>&1 | head -5" % wt)
            if b.stdout.strip():
                print(f"{name}: SKIP (does not build: {b.stdout.strip()[:120]})")
                run("git -C %s checkout -- ." % wt)
                continue
            r = run(f"cd /verif && VERIF_REPO={wt} VERIF_EVIDENCE_DIR=/tmp/mut-evidence VERIF_WITNESS_DIR=/tmp/mut-witness ./bin/check {prop} --tier quick")
            run("git -C %s checkout -- ." % wt)
            rule = next((l.strip()[:150] for l in r.stdout.splitlines() if l.strip().startswith("rule=")), "")
            print(f"{name} [{prop}]: {'CAUGHT' if r.returncode == 1 else 'MISSED' if r.returncode == 0 else 'BROKEN exit '+str(r.returncode)} {rule}", flush=True)
    finally:
        run("git -C /repo worktree remove --force %s" % wt)

main()
