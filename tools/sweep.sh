#!/bin/bash
# usage: sweep.sh <tier> <seed>...   (run from a /verif checkout or a `vp run` snapshot)
# runs every check once per seed; prints one line per check; evidence and
# witnesses go under ./sweep-out so that committed evidence is not touched.
tier=$1; shift
here=$(cd "$(dirname "$0")/.." && pwd)
export GOFLAGS=-mod=mod GOPROXY=off GOSUMDB=off GOTOOLCHAIN=local
export VERIF_DIR=$here
mkdir -p $here/bin $here/sweep-out
(cd $here/harness && go build -o $here/bin/check ./cmd/check) || exit 2
for seed in "$@"; do
  for p in C01 C02 C03 C04 C05 C06 C07 C08 C09 C10 C11 C12 C13 C14 C15 C16 C17 C18 C19 C20; do
    out=$here/sweep-out/$tier.$seed.$p.log
    VERIF_SEED=$seed VERIF_EVIDENCE_DIR=$here/sweep-out/ev.$seed VERIF_WITNESS_DIR=$here/sweep-out/wit.$seed $here/bin/check $p --tier $tier > $out 2>&1
    echo "seed=$seed $p exit=$? $(tail -1 $out | cut -c1-200)"
    grep -E "^VIOLATION|rule=" $out | head -4
  done
done
