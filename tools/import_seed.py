#!/usr/bin/env python3
"""usage: import_seed.py <seed_out dir> <property> <name> <needs-to-manifest> [wave note]
Copies a sub-agent's seed_out into /verif/seeded/<name>/ (patch.diff, NOTES.md,
demonstration files without the .txt suffix, meta.json) after checking that no
existing seed has the same patch (changed lines compared, comments ignored)."""
import sys, os, json, glob, shutil, re

def sig(path):
    out = []
    for l in open(path, errors='replace'):
        if (l.startswith('+') or l.startswith('-')) and not l.startswith(('+++', '---')):
            body = l[1:].strip()
            if not body or body.startswith('//'):
                continue
            body = re.sub(r'\s*//.*$', '', body)
            if not body:
                continue
            out.append(l[0] + re.sub(r'\s+', ' ', body))
    return tuple(sorted(out))

src, prop, name, needs = sys.argv[1:5]
note = sys.argv[5] if len(sys.argv) > 5 else ''
mine = sig(os.path.join(src, 'patch.diff'))
for d in sorted(glob.glob('/verif/seeded/*/patch.diff')):
    if sig(d) == mine:
        print('DUPLICATE of', os.path.basename(os.path.dirname(d)))
        sys.exit(1)
dst = '/verif/seeded/' + name
os.makedirs(dst, exist_ok=True)
shutil.copy(os.path.join(src, 'patch.diff'), dst)
if os.path.exists(os.path.join(src, 'NOTES.md')):
    shutil.copy(os.path.join(src, 'NOTES.md'), dst)
demos = []
for f in sorted(glob.glob(os.path.join(src, '*_test.go.txt'))):
    b = os.path.basename(f)[:-4]
    shutil.copy(f, os.path.join(dst, b))
    demos.append(b)
inlog = any(open(os.path.join(dst, b)).read().lstrip().startswith('package log') or '\npackage log' in open(os.path.join(dst, b)).read() for b in demos)
json.dump({"breaks": [prop], "demo_file": demos[0] if demos else "", "demo_placed_at": ("log/" if inlog else "") + (demos[0] if demos else ""),
           "needs_to_manifest": needs, "validated": "pending",
           "origin": "sub-agent given only the property text and a scratch worktree" + (" (" + note + ")" if note else "")},
          open(os.path.join(dst, 'meta.json'), 'w'), indent=1)
print('imported', name, demos)
