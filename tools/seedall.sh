#!/bin/bash
# usage: seedall.sh <VERIF_SEED> <stream> <nstreams>   - runs tools/seedtest.sh for every live seed whose position in the list is congruent to <stream> modulo <nstreams> (start <nstreams> of them in parallel), one line per seed
vs=$1; k=$2; n=$3
i=0
for d in /verif/seeded/*/; do
  name=$(basename $d)
  i=$((i+1))
  [ $((i % n)) -eq $k ] || continue
  case $name in C12-label-latest-config|C03-install-term-check) continue;; esac
  prop=$(python3 -c "import json;print(json.load(open('$d/meta.json'))['breaks'][0])")
  VERIF_SEED=$vs bash /verif/tools/seedtest.sh $name $prop 2>&1 | head -1 | cut -c1-260
done
