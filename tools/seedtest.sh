#!/bin/bash
# usage: seedtest.sh <seed-name> <property> [extra check args]
# applies /verif/seeded/<seed>/patch.diff to a scratch worktree of /repo (never to
# /repo itself), runs the quick check against that worktree with evidence and
# witnesses redirected to /tmp, and removes the worktree.
seed=$1; prop=$2; shift 2
p=/verif/seeded/$seed/patch.diff
[ -f "$p" ] || { echo "no such seed $seed"; exit 2; }
wt=/tmp/seedtest-wt.$$
git -C /repo worktree add -q --detach $wt HEAD || exit 2
cd $wt || exit 2
git apply "$p" || git apply -3 "$p" || { echo "patch does not apply"; cd /; git -C /repo worktree remove --force $wt; exit 2; }
VERIF_REPO=$wt VERIF_EVIDENCE_DIR=/tmp/seedtest-evidence.$$ VERIF_WITNESS_DIR=/tmp/seedtest-witness.$$ /verif/bin/check "$prop" --tier quick "$@" > /tmp/seedtest.$seed.$prop.log 2>&1
rc=$?
cd /; git -C /repo worktree remove --force $wt
echo "seed=$seed prop=$prop exit=$rc $(grep -c '^VIOLATION' /tmp/seedtest.$seed.$prop.log) violations; $(grep -m1 'rule=' /tmp/seedtest.$seed.$prop.log | cut -c1-220)"
tail -1 /tmp/seedtest.$seed.$prop.log
rm -rf /tmp/seedtest-evidence.$$ /tmp/seedtest-witness.$$
exit $rc
