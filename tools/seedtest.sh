#!/bin/bash
# usage: seedtest.sh <seed-name> <property> [extra check args]
# applies /verif/seeded/<seed>/patch.diff to /repo, runs the quick check, undoes the patch.
seed=$1; prop=$2; shift 2
p=/verif/seeded/$seed/patch.diff
[ -f "$p" ] || { echo "no such seed $seed"; exit 2; }
cd /repo || exit 2
if [ -n "$(git status --porcelain)" ]; then echo "/repo not clean"; exit 2; fi
git apply "$p" || git apply -3 "$p" || { echo "patch does not apply"; git checkout -- .; exit 2; }
VERIF_EVIDENCE_DIR=/tmp/seedtest-evidence VERIF_WITNESS_DIR=/tmp/seedtest-witness /verif/bin/check "$prop" --tier quick "$@" > /tmp/seedtest.$seed.$prop.log 2>&1
rc=$?
git -C /repo checkout -- .
git -C /repo status --porcelain | grep -v '^??' 
echo "seed=$seed prop=$prop exit=$rc $(grep -c '^VIOLATION' /tmp/seedtest.$seed.$prop.log) violations; $(grep -m1 'rule=' /tmp/seedtest.$seed.$prop.log | cut -c1-220)"
tail -1 /tmp/seedtest.$seed.$prop.log
exit $rc
