#!/usr/bin/env python3
"""Writes /verif/MANIFEST.json. Edit the tables below, then run it."""
import json, subprocess

ENV = "GOFLAGS=-mod=mod GOPROXY=off GOSUMDB=off GOTOOLCHAIN=local"

CHECKS = {
 # id: (engine, category, technique, level text, level note, design ref)
 "C01": ("A", "exploration", "runtime monitoring: vote/leader authority ledger over recorded hook events of live clusters under a seeded nemesis",
         "held on the executions explored: every leader change, vote reply and leader request of every run is judged by rules (one leader per term, majority of produced grants, one vote per voter and term, requests only from the term's leader) so a violation does not need the rare outcome 'two leaders' to be seen",
         "hooks report node state faithfully; schedules are sampled, not exhausted", "5 C01"),
 "C02": ("A+B", "exploration", "runtime monitoring: committed-entry ledger + shadow logs rebuilt from append/truncate/compact/commit events",
         "held on the executions explored: commit agreement, leader completeness at the election instant, no truncation/discard of committed entries, Raft commit rules on leaders and followers",
         "as C01", "5 C02"),
 "C03": ("A+B", "exploration", "runtime monitoring: recording state machine with unique command ids, global applied sequence vs committed ledger",
         "held on the executions explored: every Update/Restore call of every state-machine incarnation is compared with one global sequence and with the committed log",
         "as C01", "5 C03"),
 "C04": ("A+B", "exploration", "runtime monitoring: global (index, term) ledger over every append, reopened log and final dump",
         "held on the executions explored", "as C01", "5 C04"),
 "C05": ("A+B", "fault_enumeration", "runtime monitoring: every vote reply compared with the voter's state and term file at the reply hook; restarts compared with acknowledged term/vote; a system-call trace (strace) of part of the grid and of a live election run checked for the order of term-file renames, directory flushes and replies",
         "voter state x request grid enumerated completely (2700 cases, each with a second candidate, a restart and a seeded sixth crashed at a vote hook), plus live elections with crashes at the vote hooks",
         "as C01", "5 C05"),
 "C06": ("A", "exploration", "runtime monitoring: durable frontier per node from flush events, counted at every leader commit advance",
         "held on the executions explored, across configurations reached by membership changes",
         "durable = covered by a completed segment flush (msync of data then header); directory operations assumed durable", "5 C06"),
 "C07": ("A", "exploration", "runtime monitoring: client history recorded at the API boundary, direct checks enabled by unique ids",
         "held on the executions explored: exactly-once, reported position = effect, real-time order, definite rejections, reads reflect earlier updates, no uncommitted data exposed",
         "reads are bound only to updates accepted by the answering leader, as the property states", "5 C07"),
 "C08": ("A", "exploration", "runtime monitoring: configuration-chain rules on every configuration entry appended anywhere",
         "held on the executions explored (random legal and illegal requests with leader changes while actions are pending)", "as C01", "5 C08"),
 "C10": ("A+B", "fault_enumeration", "fault injection: kill -9 images taken at storage hook points of live nodes, reopened with the real code, compared with acknowledged state",
         "engine B: every k-th hook occurrence of seeded wire-level scripts is a crash point (about 90 per script, 5 scripts per quick run); engine A: random crash points in live clusters; each image reopened with the real code and compared with what had been acknowledged",
         "process-kill model; stale lock file removed by the operator", "5 C10"),
 "C11": ("A", "exploration", "runtime monitoring: authority rules for non-voters / removed nodes on hook events, wire-level timeout-now injection",
         "held on the executions explored", "as C01", "5 C11"),
 "C16": ("A", "exploration", "runtime monitoring: transfer rules (target voter + caught up, success only after higher term, nothing accepted during transfer)",
         "held on the executions explored", "as C01", "5 C16"),
 "C17": ("A", "exploration", "runtime monitoring: bounded progress on a logical tick clock after faults stop + leader-stickiness rule on every vote request",
         "restated as bounded progress (400 ticks = 100 heartbeat timeouts, extension 4x before a violation is declared); unbounded 'eventually' is out of reach of a finite run",
         "tick clock stalls with the process; late convergence is inconclusive, not a violation", "5 C17"),
 "C19": ("A+B", "exploration", "runtime monitoring: status inequalities and monotonicity on GetInfo samples and at every main-loop step",
         "held on the executions explored", "as C01", "5 C19"),
}

NOT_APPLICABLE = {
 "C09": "check not built yet (snapshot/compaction grid scenarios); the generic oracles already observe snapshot files and restores in other checks",
 "C12": "check not built yet (snapshot label scenarios)",
 "C13": "check not built yet (engine C: log package vs reference model)",
 "C14": "check not built yet (engine C: crash images of the log package)",
 "C15": "check not built yet (race builds + process-death monitor)",
 "C18": "check not built yet (engine D: codec round trips)",
 "C20": "check not built yet (two clusters on one network, identity mix-ups)",
}


CHECKS.update({
 "C09": ("A+B", "exploration", "runtime monitoring: snapshot files read back at publish/store time and compared with the global applied sequence and committed log; quarantined (PROT_NONE) unmapped segments; FSM oracles across restore/install",
         "held on the executions explored (snapshot-heavy nemesis, directed stale-suffix installation, crash-heavy runs)", "as C01", "5 C09"),
 "C12": ("A+B", "exploration", "runtime monitoring: snapshot labels vs committed configuration ledger; membership after restart vs log suffix / label; directed interleaving of snapshot and membership commit via an ordering hook",
         "held on the executions explored", "as C01", "5 C12"),
 "C13": ("C", "exploration", "reference-model monitor: real log package vs in-memory abstract sequence after every operation of seeded programs, concurrent view readers, race-detector builds",
         "held on the programs explored (about 2 000 per quick run, all boundary sizes and removal indexes biased in)", "the model is the specification; views used as documented", "5 C13"),
 "C14": ("C", "fault_enumeration", "fault injection: kill and page-subset power-loss images at every hook point inside log operations, reopened with the real log.Open and judged against the model's pre/post state and last completed commit",
         "every crash point the programs pass through is enumerated; per point the kill image and up to 2^6 (else sampled) power-loss images",
         "directory operations durable at return; 4 KiB page granularity over the last completed msync", "5 C14"),
 "C15": ("A", "exploration", "sanitizers + runtime monitoring: race detector / checkptr builds of the live-cluster engine, quarantined mappings, child-process death and Serve result monitor, task completion and shutdown monitor",
         "held on the executions explored, plain and -race", "race reports deduplicated by accessing-function pair; harness-only reports ignored", "5 C15"),
 "C18": ("D+B", "exploration", "round-trip monitor over boundary-biased generated values for every codec + truncated-prefix rejection + persisted 64-bit values through the public API",
         "held on the values explored (about 240 000 per quick run)", "exported wrappers call the unexported codecs unchanged", "5 C18"),
})
CHECKS["C20"] = ("A", "exploration", "runtime monitoring: every processed request tied to the identity handshake of its connection; two clusters on one network with address / resolver mix-ups and wire-level impostors; attempts to reuse served directories",
         "held on the executions explored", "as C01", "5 C20")
for k in ("C09","C12","C13","C14","C15","C18","C20"):
    NOT_APPLICABLE.pop(k, None)

def hooks_commits():
    out = subprocess.run(["git", "-C", "/repo", "log", "--format=%H %s"], capture_output=True, text=True).stdout
    return [l.split()[0] for l in out.splitlines() if " verif hooks:" in l]

m = {
 "version": 1,
 "setup_cmd": "cd /verif/harness && %s go build -o /verif/bin/check ./cmd/check" % ENV,
 "hooks": {
  "guard": "verif",
  "enable": "go build -tags verif (the checks build /verif/harness/cmd/worker against /repo's working tree with -tags verif, plus -race for race runs)",
  "baseline_off_cmd": "cd /repo && %s go test -vet=off -count=1 -timeout 25m ./..." % ENV,
  "source_commits": hooks_commits(),
  "add_only": True,
 },
 "engines": [
  {"name": "A", "path": "harness/cmd/worker/enginea.go", "serves_properties": sorted(k for k, v in CHECKS.items() if "A" in v[0]),
   "kind_free_text": "live cluster of real nodes in one child process on an in-memory network, seeded nemesis + directed scenarios, hooks -> events.jsonl, offline oracles in harness/oracle"},
  {"name": "B", "path": "harness/cmd/worker/engineb.go", "serves_properties": ["C02", "C03", "C04", "C05", "C09", "C10", "C12", "C18", "C19"],
   "kind_free_text": "one real node served on the in-memory network; the harness plays all peers at wire level from a generated consistent Raft history (one leader per term, prefix-consistent leader logs, monotone committed prefix, snapshots of committed prefixes) delivered stale / duplicated / reordered over fresh and old connections; vote-state grid; crash-point enumeration; burst + fragmented framing"},
  {"name": "C", "path": "harness/cmd/worker/enginec.go", "serves_properties": ["C13", "C14"],
   "kind_free_text": "log package alone vs reference model, crash images (kill + page-subset power loss) at every log hook point"},
  {"name": "D", "path": "harness/cmd/worker/engined.go", "serves_properties": ["C18"],
   "kind_free_text": "codec round trips over generated values, truncated prefixes, value files through SetIdentity/New and vote+restart"},
 ],
 "checks": [],
 "notes": "Technique family: runtime monitoring. check = /verif/bin/check <id> --tier quick|thorough; VERIF_SEED seeds the case list; witnesses under /verif/witness/<id>/; known findings in /verif/known_findings.json.",
 "not_applicable": [{"property_id": k, "reason": v} for k, v in sorted(NOT_APPLICABLE.items())],
}
for pid in sorted(CHECKS):
    eng, cat, tech, text, note, ref = CHECKS[pid]
    m["checks"].append({
        "property_id": pid,
        "quick_cmd": "/verif/bin/check %s --tier quick" % pid,
        "thorough_cmd": "/verif/bin/check %s --tier thorough" % pid,
        "evidence_file": "/verif/evidence/%s.json" % pid,
        "replay_cmd_template": "/verif/bin/check %s --replay {path}" % pid,
        "engine": eng,
        "level_claimed": {"category": cat, "text": text, "design_ref": "DESIGN.md section " + ref},
        "level_note": note,
        "technique": tech,
    })
json.dump(m, open("/verif/MANIFEST.json", "w"), indent=1)
print("wrote MANIFEST.json with", len(m["checks"]), "checks,", len(m["not_applicable"]), "not applicable")
