#!/bin/bash
# usage: validate_seed.sh <seed-name>   (own re-validation of a seeded change)
# In a fresh scratch worktree of /repo HEAD: the patch applies and builds, the
# pinned suite passes with it, the demonstration fails with it and passes
# without it. *_test.go files of the seed whose name contains "_log_" or whose
# meta names log/ go to log/, the others to the repository root.
seed=$1
d=/verif/seeded/$seed
[ -f $d/patch.diff ] || { echo "no such seed"; exit 2; }
export GOFLAGS=-mod=mod GOPROXY=off GOSUMDB=off GOTOOLCHAIN=local
wt=/tmp/validate-wt.$$
git -C /repo worktree add -q --detach $wt HEAD || exit 2
trap 'cd /; git -C /repo worktree remove --force '$wt'; git -C /repo worktree prune' EXIT
cd $wt
echo "== validate $seed at $(git rev-parse --short HEAD)"
git apply $d/patch.diff && echo "APPLY ok" || { echo "APPLY failed"; exit 1; }
go build ./... && echo "BUILD ok" || { echo "BUILD failed"; exit 1; }
if go test -vet=off -count=1 -timeout 25m ./... > suite.log 2>&1; then echo "SUITE pass"; else echo "SUITE FAIL"; grep -E "^(--- FAIL|FAIL|panic)" suite.log | head -5; fi
pkgs=""
for f in $d/*_test.go; do
  b=$(basename $f)
  if grep -q "^package log" $f; then cp $f log/$b; pkgs="$pkgs ./log"; else cp $f ./$b; pkgs="$pkgs ."; fi
done
pkgs=$(echo $pkgs | tr ' ' '\n' | sort -u | tr '\n' ' ')
run=$(grep -ho "^func Test[A-Za-z0-9_]*" $d/*_test.go | sed 's/func //' | paste -sd'|')
if go test -vet=off -count=1 -timeout 10m -run "$run" $pkgs > demo_with.log 2>&1; then echo "DEMO-WITH pass (UNEXPECTED)"; else echo "DEMO-WITH fail (expected)"; fi
git apply -R $d/patch.diff
if go test -vet=off -count=1 -timeout 10m -run "$run" $pkgs > demo_without.log 2>&1; then echo "DEMO-WITHOUT pass (expected)"; else echo "DEMO-WITHOUT FAIL (UNEXPECTED)"; tail -5 demo_without.log; fi
